"""COMPILE-EQUIV: the whole compile step decided on a bounded family of models, without running rooc.

`Linearizer::linearize` -- normalisation (flatten / simplify), BoundsAnalyzer::analyze and apply_to_domain, the lowering
of every expression form, the constraint loop with its logic normalisation and contradiction rows, row naming, variable
filtering and the assembly of the LinearModel -- is evaluated from its typed HIR by the table interpreter on a family of
small source models (two variables; constraints and objectives drawn from affine, cancelling, constant-only, abs, min,
max, nested and negatively scaled forms; every relation; bounded, integer and Boolean domains).  During development the
emulation was compared with the real compiler on 300 random models of the family: text-identical linear models.

For every model and every point of a rational grid of the declared box (non-integers included) the result is decided
exactly (the auxiliaries are eliminated by Fourier-Motzkin over the rationals, Boolean auxiliaries enumerated):
  C01  the point satisfies the source constraints and domains  <=>  some auxiliary values satisfy every row and domain
  C02  at a feasible point, the best value of the linear objective over the auxiliaries equals the source objective
  C08  the linear model is well formed: sorted distinct variables, one coefficient per variable in every row and in the
       objective, finite numbers, distinct non-empty row names, a domain for exactly the variables
  C10  equivalent spellings of one constraint compile to linear models with the same domains and rows' feasible set
"""
import itertools as it
from fractions import Fraction as Fr
import c10
import c12rt
from interp import Interp, Var as V, Rope as Rp, ListV as LV, is_unknown

E = c10.EXP
VT = "math::math_enums::VariableType"
INF = float("inf")
LIN = "transformers::linearizer::Linearizer::linearize"

var = lambda n: V(E + "::Variable", [Rp([n])])
num = lambda c: V(E + "::Number", [float(c)])
bop = lambda o, a, b: V(E + "::BinOp", [V("math::operators::BinOp::" + o), a, b])
neg = lambda a: V(E + "::UnOp", [V("math::operators::UnOp::Neg"), a])
ab = lambda a: V(E + "::Abs", [a])
mx = lambda *a: V(E + "::Max", [LV(list(a))])
mn = lambda *a: V(E + "::Min", [LV(list(a))])


lnot = lambda a: V(E + "::Not", [a])
land = lambda *a: V(E + "::And", [LV(list(a))])
lor = lambda *a: V(E + "::Or", [LV(list(a))])
lxor = lambda a, b: V(E + "::Xor", [a, b])
limp = lambda a, b: V(E + "::Implies", [a, b])
liff = lambda a, b: V(E + "::Iff", [a, b])


def text(v):
    return v.text() if isinstance(v, Rp) else v


def value(e, env):
    k = e.path.rsplit("::", 1)[-1]
    if k == "Number":
        return Fr(e.args[0])
    if k == "Variable":
        return env[text(e.args[0])]
    if k == "Abs":
        return abs(value(e.args[0], env))
    if k in ("Min", "Max"):
        vs = [value(z, env) for z in e.args[0].items]
        return min(vs) if k == "Min" else max(vs)
    if k == "UnOp":
        return -value(e.args[1], env)
    if k == "BinOp":
        o = e.args[0].path.rsplit("::", 1)[-1]
        a, b = value(e.args[1], env), value(e.args[2], env)
        return {"Add": a + b, "Sub": a - b, "Mul": a * b}[o] if o != "Div" else a / b
    # logic: an operand is true when it is not zero, the value of a logic form is 1 or 0
    tb = lambda z: Fr(1) if z else Fr(0)
    if k == "Not":
        return tb(value(e.args[0], env) == 0)
    if k in ("And", "Or"):
        vs = [value(z, env) != 0 for z in e.args[0].items]
        return tb(all(vs) if k == "And" else any(vs))
    if k in ("Xor", "Implies", "Iff"):
        a, b = value(e.args[0], env) != 0, value(e.args[1], env) != 0
        return tb({"Xor": a != b, "Implies": (not a) or b, "Iff": a == b}[k])
    raise KeyError(k)


def show(e):
    k = e.path.rsplit("::", 1)[-1]
    if k == "Number":
        v = e.args[0]
        return str(int(v)) if v == int(v) else repr(v)
    if k == "Variable":
        return text(e.args[0])
    if k == "Abs":
        return "abs{%s}" % show(e.args[0])
    if k in ("Min", "Max"):
        return "%s{%s}" % (k.lower(), ", ".join(show(z) for z in e.args[0].items))
    if k == "UnOp":
        return "-(%s)" % show(e.args[1])
    if k == "Not":
        return "not(%s)" % show(e.args[0])
    if k in ("And", "Or"):
        return "(%s)" % (" %s " % k.lower()).join(show(z) for z in e.args[0].items)
    if k in ("Xor", "Implies", "Iff"):
        return "(%s %s %s)" % (show(e.args[0]), k.lower(), show(e.args[1]))
    o = {"Add": "+", "Sub": "-", "Mul": "*", "Div": "/"}[e.args[0].path.rsplit("::", 1)[-1]]
    return "(%s %s %s)" % (show(e.args[1]), o, show(e.args[2]))


REL = {"LessOrEqual": lambda a, b: a <= b, "GreaterOrEqual": lambda a, b: a >= b, "Equal": lambda a, b: a == b}
SYM = {"LessOrEqual": "<=", "GreaterOrEqual": ">=", "Equal": "="}


# ---- exact elimination of the continuous auxiliaries ------------------------------------------------------

def fm_feasible(rows, nvars):
    """rows: [(coeffs list over the continuous unknowns, rel, rhs)] with rational entries; is the system satisfiable?"""
    ineqs = []  # a . t <= b
    for co, rel, b in rows:
        if rel in ("LessOrEqual", "Equal"):
            ineqs.append((list(co), b))
        if rel in ("GreaterOrEqual", "Equal"):
            ineqs.append(([-c for c in co], -b))
    for k in range(nvars):
        pos = [r for r in ineqs if r[0][k] > 0]
        negs = [r for r in ineqs if r[0][k] < 0]
        rest = [r for r in ineqs if r[0][k] == 0]
        for p in pos:
            for q in negs:
                a, b = p[0][k], -q[0][k]
                rest.append(([b * x + a * y for x, y in zip(p[0], q[0])], b * p[1] + a * q[1]))
        ineqs = rest
        if len(ineqs) > 4000:
            raise OverflowError("elimination blow-up")
    return all(b >= 0 for _, b in ineqs)


def fm_optimum(rows, nvars, obj, sense):
    """best value of obj . t over the system (None if infeasible, +-inf if unbounded); sense 'Min' / 'Max'"""
    # add z with z = obj . t, eliminate t, read the bound on z
    rows2 = [(list(co) + [Fr(0)], rel, b) for co, rel, b in rows]
    rows2.append(([-c for c in obj] + [Fr(1)], "Equal", Fr(0)))
    ineqs = []
    for co, rel, b in rows2:
        if rel in ("LessOrEqual", "Equal"):
            ineqs.append((list(co), b))
        if rel in ("GreaterOrEqual", "Equal"):
            ineqs.append(([-c for c in co], -b))
    for k in range(nvars):
        pos = [r for r in ineqs if r[0][k] > 0]
        negs = [r for r in ineqs if r[0][k] < 0]
        rest = [r for r in ineqs if r[0][k] == 0]
        for p in pos:
            for q in negs:
                a, b = p[0][k], -q[0][k]
                rest.append(([b * x + a * y for x, y in zip(p[0], q[0])], b * p[1] + a * q[1]))
        ineqs = rest
    lo, hi = None, None
    for co, b in ineqs:
        c = co[nvars]
        if c == 0:
            if b < 0:
                return None
        elif c > 0:
            hi = b / c if hi is None else min(hi, b / c)
        else:
            lo = b / c if lo is None else max(lo, b / c)
    if lo is not None and hi is not None and lo > hi:
        return None
    if sense == "Min":
        return lo if lo is not None else -INF
    return hi if hi is not None else INF


# ---- the linear model read from the interpreter value ---------------------------------------------------------

class Lin:
    def __init__(self, v):
        f = v.fields
        self.vars = [text(x) for x in f["variables"].items]
        self.obj = [Fr(x) if x == x and abs(x) != INF else x for x in f["objective"].items]
        self.offset = f["objective_offset"]
        self.opt = f["optimization_type"].path.rsplit("::", 1)[-1]
        self.rows = [(text(r.fields["name"]) or "", [x for x in r.fields["coefficients"].items], r.fields["constraint_type"].path.rsplit("::", 1)[-1], r.fields["rhs"]) for r in f["constraints"].items]
        self.dom = {}
        for k_, d_ in f["domain"].items:
            t = d_.fields["as_type"]
            self.dom[text(k_)] = (t.path.rsplit("::", 1)[-1], tuple(t.args))

    def well_formed(self):
        if self.vars != sorted(self.vars, key=lambda s: s.encode("utf8")) or len(set(self.vars)) != len(self.vars):
            return "variables are not sorted and distinct: %s" % self.vars
        if len(self.obj) != len(self.vars):
            return "objective has %d coefficients for %d variables" % (len(self.obj), len(self.vars))
        nums = list(self.obj) + [self.offset]
        for nm, co, rel, rhs in self.rows:
            if len(co) != len(self.vars):
                return "row `%s` has %d coefficients for %d variables" % (nm, len(co), len(self.vars))
            nums += list(co) + [rhs]
        for x in nums:
            if isinstance(x, float) and (x != x or abs(x) == INF):
                return "a non-finite number %r in the linear model" % x
        names = [nm for nm, _, _, _ in self.rows if nm]
        if len(set(names)) != len(names):
            return "duplicate row names %s" % names
        if set(self.dom) != set(self.vars):
            return "domains %s for variables %s" % (sorted(self.dom), self.vars)
        for v, (k, a) in self.dom.items():
            if len(a) == 2 and (a[0] != a[0] or a[1] != a[1] or a[0] > a[1]):
                return "the domain of %s is %s(%r, %r): its lower end is above its upper end (recompiling the rendering is rejected)" % (v, k, a[0], a[1])
        return None

    def in_domain(self, name, val):
        k, a = self.dom[name]
        if k == "Boolean":
            return val in (0, 1)
        lo, hi = a
        if (lo != -INF and val < Fr(lo)) or (hi != INF and val > Fr(hi)):
            return False
        return not (k == "IntegerRange" and val.denominator != 1)

    def feasible_and_best(self, point, want_objective):
        """(feasible?, best objective over the auxiliaries or None)"""
        aux = [v for v in self.vars if v not in point]
        bools = [v for v in aux if self.dom[v][0] == "Boolean"]
        ints = [v for v in aux if self.dom[v][0] == "IntegerRange"]
        conts = [v for v in aux if v not in bools and v not in ints]
        if ints:
            raise ValueError("integer auxiliary %s" % ints)
        for n_, v_ in point.items():
            if n_ in self.dom and not self.in_domain(n_, v_):
                return False, None
        idx = {v: i for i, v in enumerate(self.vars)}
        feasible = False
        best = None
        for sel in it.product((0, 1), repeat=len(bools)):
            fixed = dict(point)
            fixed.update(dict(zip(bools, (Fr(s) for s in sel))))
            rows = []
            for nm, co, rel, rhs in self.rows:
                const = sum((Fr(co[idx[v]]) * fixed[v] for v in fixed if v in idx), Fr(0))
                rows.append(([Fr(co[idx[v]]) for v in conts], rel, Fr(rhs) - const))
            for v in conts:
                k, (lo, hi) = self.dom[v]
                unit = [Fr(1) if w == v else Fr(0) for w in conts]
                if lo != -INF:
                    rows.append((unit, "GreaterOrEqual", Fr(lo)))
                if hi != INF:
                    rows.append((unit, "LessOrEqual", Fr(hi)))
            if not want_objective:
                if fm_feasible(rows, len(conts)):
                    return True, None
                continue
            const = sum((Fr(self.obj[idx[v]]) * fixed[v] for v in fixed if v in idx), Fr(self.offset))
            o = fm_optimum(rows, len(conts), [Fr(self.obj[idx[v]]) for v in conts], self.opt if self.opt != "Satisfy" else "Min")
            if o is None:
                continue
            feasible = True
            o = o + const if o not in (INF, -INF) else o
            if best is None or (self.opt == "Max" and o > best) or (self.opt != "Max" and o < best):
                best = o
        return feasible, best


# ---- the family --------------------------------------------------------------------------------------------

def exprs():
    x, y = var("x"), var("y")
    return [("x+y", bop("Add", x, y)), ("2x-y", bop("Sub", bop("Mul", num(2), x), y)), ("-0.5x+y", bop("Add", bop("Mul", num(-0.5), x), y)), ("abs(x)", ab(x)), ("abs(x-y)", ab(bop("Sub", x, y))),
            ("max(x,y)", mx(x, y)), ("min(x,2y)", mn(x, bop("Mul", num(2), y))), ("-(x+3)", neg(bop("Add", x, num(3)))), ("abs(x)+y", bop("Add", ab(x), y)), ("-2*max(x,y)", bop("Mul", num(-2), mx(x, y))),
            ("3-min(x,y)", bop("Sub", num(3), mn(x, y))), ("max(abs(x),y)", mx(ab(x), y)), ("(x+y)/2", bop("Div", bop("Add", x, y), num(2))), ("x-x", bop("Sub", x, x)), ("abs(x)/-2", bop("Div", ab(x), num(-2))),
            ("3", num(3)), ("x+2-(x+1)", bop("Sub", bop("Add", x, num(2)), bop("Add", x, num(1)))), ("max(x,5)", mx(x, num(5))), ("min(x,-6)", mn(x, num(-6))), ("abs(max(x,y))", ab(mx(x, y))), ("y", y)]


DOMAINS = [("box", ("Real", -4.0, 4.0), ("Real", -4.0, 4.0)), ("int", ("IntegerRange", -3, 3), ("NonNegativeReal", 0.0, 5.0)), ("bool", ("Boolean",), ("Real", -2.0, 2.0))]


def grid(d):
    if d[0] == "Boolean":
        return [Fr(0), Fr(1)]
    lo, hi = d[1], d[2]
    if d[0] == "IntegerRange":
        return [Fr(i) for i in range(int(lo), int(hi) + 1)]
    pts = []
    z = Fr(int(lo * 2), 2)
    while z <= hi:
        pts.append(z)
        z += Fr(1)
    pts += [Fr(lo) + Fr(1, 3), Fr(hi) - Fr(1, 2), Fr(lo), Fr(hi)]
    return sorted(set(p for p in pts if lo <= p <= hi))


def in_decl(d, v):
    if d[0] == "Boolean":
        return v in (0, 1)
    if d[0] == "IntegerRange" and v.denominator != 1:
        return False
    return d[1] <= v <= d[2]


def make_model(cons, objective, opt, dx, dy):
    used = " ".join(show(c[0]) for c in cons) + " " + show(objective)
    def dv(d, n):
        v = c12rt.dv(V(VT + "::" + d[0], list(d[1:])))
        v.fields["usage_count"] = used.count(n)
        return v
    con = lambda e, rl, c, nm: V("parser::model_transformer::model::Constraint", fields={"name": nm, "lhs": e, "constraint_type": V("math::math_enums::Comparison::" + rl), "rhs": num(c), "is_logic_assertion": False})
    return V("parser::model_transformer::model::Model", fields={
        "objective": V("parser::model_transformer::model::Objective", fields={"objective_type": V("math::math_enums::OptimizationType::" + opt), "rhs": objective}),
        "constraints": LV([con(e, rl, c, nm) for e, rl, c, nm in cons]),
        "domain": LV([("x", dv(dx, "x")), ("y", dv(dy, "y"))])})


def family(tier):
    ex = exprs()
    cons = []
    for (el, e), rl, c in it.product(ex, ("LessOrEqual", "GreaterOrEqual", "Equal"), (1.0, -2.0, 0.0, 4.0)):
        if rl == "Equal" and c not in (1.0, 0.0):
            continue
        cons.append((el, e, rl, c))
    out = []
    k = 0
    step = 1 if tier == "thorough" else 3
    for i in range(0, len(cons), 1):
        el, e, rl, c = cons[i]
        for dl, dx, dy in DOMAINS:
            k += 1
            if k % step:
                continue
            j = (i * 7 + k) % len(cons)
            ol, oe = ex[(i + k) % len(ex)]
            opt = "Min" if k % 2 else "Max"
            two = [(e, rl, c, "r"), (cons[j][1], cons[j][2], cons[j][3], "")]
            out.append(("%s | %s %s %s ; %s %s %s | %s %s" % (dl, el, SYM[rl], c, cons[j][0], SYM[cons[j][2]], cons[j][3], opt.lower(), ol), two, oe, opt, dx, dy, el))
    x, y = var("x"), var("y")
    extra = [("inexact | x+y>=0.4", [(bop("Add", x, y), "GreaterOrEqual", 0.4, "need")], bop("Add", x, y), "Min", ("NonNegativeReal", 0.0, 0.3), ("NonNegativeReal", 0.0, 0.1)),
             ("inexact | x>=0.1+0.2", [(x, "GreaterOrEqual", 0.1 + 0.2, "")], x, "Min", ("Real", -5.0, 0.3), ("Real", 0.0, 1.0)),
             ("inexact | 1.9x<=1.9", [(bop("Mul", num(1.9), x), "LessOrEqual", 1.9, "")], x, "Max", ("Real", 1.0, 5.0), ("Real", 0.0, 1.0)),
             ("inexact | 1.9x<=15.2 int", [(bop("Mul", num(1.9), x), "LessOrEqual", 15.2, "")], x, "Max", ("IntegerRange", 0, 20), ("Real", 0.0, 1.0)),
             ("inexact | 3.9x>=42.9 int", [(bop("Mul", num(3.9), x), "GreaterOrEqual", 42.9, "")], x, "Min", ("IntegerRange", 0, 20), ("Real", 0.0, 1.0))]
    # one nonlinear operand used several times, in positions that ask for different things of its auxiliary (one-sided in
    # one place, exact in another; objective first, then rows), and rows that are trivialised by a bound they imply
    # themselves next to a contradiction
    box = ("Real", -4.0, 4.0)
    for gl, g in (("abs(x)", ab(x)), ("abs(x-y)", ab(bop("Sub", x, y))), ("max(x,y)", mx(x, y)), ("min(x,2y)", mn(x, bop("Mul", num(2), y)))):
        two_minus_three = bop("Sub", bop("Sub", bop("Mul", num(2), g), bop("Mul", num(3), g)), bop("Mul", num(2), x))
        extra += [("shared | min 2g-3g-2x, g=%s" % gl, [(bop("Add", x, y), "LessOrEqual", 6.0, "")], two_minus_three, "Min", box, box),
                  ("shared | max 2g-3g-2x, g=%s" % gl, [(bop("Add", x, y), "LessOrEqual", 6.0, "")], two_minus_three, "Max", box, box),
                  ("shared | min g+x ; g>=2, g=%s" % gl, [(g, "GreaterOrEqual", 2.0, "")], bop("Add", g, x), "Min", box, box),
                  ("shared | max g+x ; g<=2, g=%s" % gl, [(g, "LessOrEqual", 2.0, "")], bop("Add", g, x), "Max", box, box),
                  ("shared | max g-y ; g>=1, g=%s" % gl, [(g, "GreaterOrEqual", 1.0, "")], bop("Sub", g, y), "Max", box, box),
                  ("shared | g<=3 ; g>=1, g=%s" % gl, [(g, "LessOrEqual", 3.0, "up"), (g, "GreaterOrEqual", 1.0, "lo")], bop("Add", x, y), "Min", box, box),
                  ("shared | g>=1 ; g<=3 ; g=2, g=%s" % gl, [(g, "GreaterOrEqual", 1.0, ""), (g, "LessOrEqual", 3.0, ""), (g, "Equal", 2.0, "")], g, "Min", box, box)]
    extra += [("self-implied | abs(x)-x<=0 ; x<=-1", [(bop("Sub", ab(x), x), "LessOrEqual", 0.0, ""), (x, "LessOrEqual", -1.0, "")], x, "Min", box, box),
              ("self-implied | max(x,0)-x<=0 ; x<=-1", [(bop("Sub", mx(x, num(0)), x), "LessOrEqual", 0.0, ""), (x, "LessOrEqual", -1.0, "")], x, "Min", box, box),
              ("self-implied | abs(x)-x<=0 ; x>=1", [(bop("Sub", ab(x), x), "LessOrEqual", 0.0, ""), (x, "GreaterOrEqual", 1.0, "")], x, "Min", box, box),
              ("self-implied | min(x,0)-x>=0 ; x>=1 ; y>=5", [(bop("Sub", mn(x, num(0)), x), "GreaterOrEqual", 0.0, ""), (x, "GreaterOrEqual", 1.0, ""), (y, "GreaterOrEqual", 5.0, "")], y, "Min", box, box),
              ("self-implied | abs(x)+x<=0 ; x>=2 ; x+y>=1", [(bop("Add", ab(x), x), "LessOrEqual", 0.0, ""), (x, "GreaterOrEqual", 2.0, ""), (bop("Add", x, y), "GreaterOrEqual", 1.0, "")], y, "Max", box, box)]
    # operand ranges of a min / max that overlap by a hair: an operand may only be left out when it can never be the extreme
    extra += [("near-touching | max(x,y)>=1", [(mx(x, y), "GreaterOrEqual", 1.0, "")], bop("Add", x, y), "Min", ("Real", 0.0, 1.0), ("Real", 0.999995, 2.0)),
              ("near-touching | y+0>=max(x,y)-x", [(bop("Sub", mx(x, y), x), "LessOrEqual", 0.0, "")], y, "Max", ("Real", 0.0, 1.0), ("Real", 0.999995, 2.0)),
              ("near-touching | min(x,y)<=1", [(mn(x, y), "LessOrEqual", 1.0, "")], bop("Add", x, y), "Max", ("Real", 1.0, 2.0), ("Real", 0.0, 1.000005)),
              ("near-touching | 1e6*max(x,y)>=5", [(bop("Mul", num(1000000.0), mx(x, y)), "GreaterOrEqual", 5.0, "")], bop("Add", x, y), "Min", ("Real", 0.0, 0.000008), ("Real", 0.000001, 0.00002)),
              ("near-touching | max(x,y)<=1.5 exact", [(mx(x, y), "Equal", 1.0, "")], x, "Max", ("Real", 0.0, 1.0), ("Real", 0.999995, 2.0))]
    # logic operators over operands that are affine in a Boolean but not 0/1 valued (b/2, 0.25 + b/2, 0.3b): the operand is
    # true when it is not zero; compiling is fine only if that is what the rows say, refusing is fine too
    BO = ("Boolean",)
    half = bop("Div", x, num(2))
    for ll, le in (("not(x/2)", lnot(half)), ("(x/2) and y", land(half, y)), ("(0.25+x/2) or y", lor(bop("Add", num(0.25), half), y)), ("(0.3x) xor y", lxor(bop("Mul", num(0.3), x), y)), ("(x/2) implies y", limp(half, y)),
                   ("y iff (1-x/2)", liff(y, bop("Sub", num(1), half))), ("not(1-x)", lnot(bop("Sub", num(1), x))), ("x and y", land(x, y))):
        extra += [("fractional-logic | max 2*%s+3x-y" % ll, [(bop("Add", x, y), "LessOrEqual", 2.0, "")], bop("Sub", bop("Add", bop("Mul", num(2), le), bop("Mul", num(3), x)), y), "Max", BO, BO),
                  ("fractional-logic | min 3*%s-x-y" % ll, [(bop("Add", x, y), "GreaterOrEqual", 0.0, "")], bop("Sub", bop("Sub", bop("Mul", num(3), le), x), y), "Min", BO, BO),
                  ("fractional-logic | %s>=1" % ll, [(le, "GreaterOrEqual", 1.0, "")], bop("Add", x, y), "Min", BO, BO)]
    # three operands of which pruning removes one that is written before the others (what is computed per retained operand
    # must stay aligned with the retained operands), and an abs whose operand contains another abs (auxiliaries are numbered
    # while the operand is lowered)
    rx, ry = ("Real", 5.0, 10.0), ("Real", 0.0, 10.0)
    extra += [("pruned-first | max(x,4,y)>=7", [(mx(x, num(4), y), "GreaterOrEqual", 7.0, "")], bop("Add", x, y), "Min", rx, ry),
              ("pruned-first | max max(1,x,y) ; x+y<=12", [(bop("Add", x, y), "LessOrEqual", 12.0, "")], mx(num(1), x, y), "Max", rx, ("Real", 0.0, 8.0)),
              ("pruned-first | min(x,6,y)<=3", [(mn(x, num(6), y), "LessOrEqual", 3.0, "")], bop("Add", x, y), "Max", ("Real", 0.0, 5.0), ry),
              ("pruned-first | min min(20,x,y) ; x+y>=8", [(bop("Add", x, y), "GreaterOrEqual", 8.0, "")], mn(num(20), x, y), "Min", ("Real", 0.0, 5.0), ("Real", 2.0, 10.0)),
              ("pruned-first | max(x-20,y,x)=6", [(mx(bop("Sub", x, num(20)), y, x), "Equal", 6.0, "")], y, "Max", rx, ry),
              ("nested-abs | max abs(abs(x)-3)", [(bop("Add", x, y), "LessOrEqual", 6.0, "")], ab(bop("Sub", ab(x), num(3))), "Max", ("IntegerRange", -4, 5), box),
              ("nested-abs | abs(x-abs(y))<=1", [(ab(bop("Sub", x, ab(y))), "LessOrEqual", 1.0, "")], bop("Add", x, y), "Max", box, box),
              ("nested-abs | min abs(x)-abs(abs(y)-1)", [(bop("Add", x, y), "GreaterOrEqual", -6.0, "")], bop("Sub", ab(x), ab(bop("Sub", ab(y), num(1)))), "Min", box, box),
              ("nested-abs | abs(abs(x)-2)>=4", [(ab(bop("Sub", ab(x), num(2))), "GreaterOrEqual", 4.0, "")], x, "Min", box, box),
              ("nested-abs | max(abs(x),abs(abs(y)-1))>=3", [(mx(ab(x), ab(bop("Sub", ab(y), num(1)))), "GreaterOrEqual", 3.0, "")], bop("Add", x, y), "Min", box, box)]
    for label, cons_, obj_, opt_, dx_, dy_ in extra:
        out.append((label, cons_, obj_, opt_, dx_, dy_, label.split("| ")[1]))
    return out


def spelling_families():
    x = var("x")
    return [("x>=-7", "GreaterOrEqual", [("-(x+3)<=4", neg(bop("Add", x, num(3))), "LessOrEqual", 4.0), ("-x-3<=4", bop("Sub", neg(x), num(3)), "LessOrEqual", 4.0), ("-1*(x+3)<=4", bop("Mul", num(-1), bop("Add", x, num(3))), "LessOrEqual", 4.0),
                                          ("0-(x+3)<=4", bop("Sub", num(0), bop("Add", x, num(3))), "LessOrEqual", 4.0), ("x+3>=-4", bop("Add", x, num(3)), "GreaterOrEqual", -4.0), ("(x+3)/-1<=4", bop("Div", bop("Add", x, num(3)), num(-1)), "LessOrEqual", 4.0)]),
            ("2x<=6", "LessOrEqual", [("2*x<=6", bop("Mul", num(2), x), "LessOrEqual", 6.0), ("x*2<=6", bop("Mul", x, num(2)), "LessOrEqual", 6.0), ("x+x<=6", bop("Add", x, x), "LessOrEqual", 6.0), ("x/0.5<=6", bop("Div", x, num(0.5)), "LessOrEqual", 6.0),
                                      ("-(-2*x)<=6", neg(bop("Mul", num(-2), x)), "LessOrEqual", 6.0), ("2*(x+1)<=8", bop("Mul", num(2), bop("Add", x, num(1))), "LessOrEqual", 8.0)]),
            ("|x|<=3", "LessOrEqual", [("abs(x)<=3", ab(x), "LessOrEqual", 3.0), ("abs(x)/2<=1.5", bop("Div", ab(x), num(2)), "LessOrEqual", 1.5), ("0.5*abs(x)<=1.5", bop("Mul", num(0.5), ab(x)), "LessOrEqual", 1.5),
                                     ("abs(x)*2<=6", bop("Mul", ab(x), num(2)), "LessOrEqual", 6.0), ("abs(x)/-2>=-1.5", bop("Div", ab(x), num(-2)), "GreaterOrEqual", -1.5), ("max(x,-x)<=3", mx(x, neg(x)), "LessOrEqual", 3.0),
                                     ("abs(x)*-2>=-6", bop("Mul", ab(x), num(-2)), "GreaterOrEqual", -6.0), ("-(abs(x)*2)>=-6", neg(bop("Mul", ab(x), num(2))), "GreaterOrEqual", -6.0)]),
            # a negative constant written on either side of a piecewise form, as a factor, a divisor or a negation
            ("max(x,y)<=3", "LessOrEqual", [("max(x,y)<=3", mx(x, var("y")), "LessOrEqual", 3.0), ("-2*max(x,y)>=-6", bop("Mul", num(-2), mx(x, var("y"))), "GreaterOrEqual", -6.0), ("max(x,y)*-2>=-6", bop("Mul", mx(x, var("y")), num(-2)), "GreaterOrEqual", -6.0),
                                           ("max(x,y)/-0.5>=-6", bop("Div", mx(x, var("y")), num(-0.5)), "GreaterOrEqual", -6.0), ("-(max(x,y)*2)>=-6", neg(bop("Mul", mx(x, var("y")), num(2))), "GreaterOrEqual", -6.0), ("max(x,y)*2<=6", bop("Mul", mx(x, var("y")), num(2)), "LessOrEqual", 6.0)]),
            # ... and in the direction that needs the exact lowering
            ("max(x,y)>=3", "GreaterOrEqual", [("max(x,y)>=3", mx(x, var("y")), "GreaterOrEqual", 3.0), ("-2*max(x,y)<=-6", bop("Mul", num(-2), mx(x, var("y"))), "LessOrEqual", -6.0), ("max(x,y)*-2<=-6", bop("Mul", mx(x, var("y")), num(-2)), "LessOrEqual", -6.0),
                                              ("max(x,y)/-0.5<=-6", bop("Div", mx(x, var("y")), num(-0.5)), "LessOrEqual", -6.0), ("-(max(x,y)*2)<=-6", neg(bop("Mul", mx(x, var("y")), num(2))), "LessOrEqual", -6.0), ("max(x,y)*2>=6", bop("Mul", mx(x, var("y")), num(2)), "GreaterOrEqual", 6.0)]),
            ("min(x,y)<=-3", "LessOrEqual", [("min(x,y)<=-3", mn(x, var("y")), "LessOrEqual", -3.0), ("-2*min(x,y)>=6", bop("Mul", num(-2), mn(x, var("y"))), "GreaterOrEqual", 6.0), ("min(x,y)*-2>=6", bop("Mul", mn(x, var("y")), num(-2)), "GreaterOrEqual", 6.0),
                                            ("min(x,y)/-0.5>=6", bop("Div", mn(x, var("y")), num(-0.5)), "GreaterOrEqual", 6.0), ("-(min(x,y)*2)>=6", neg(bop("Mul", mn(x, var("y")), num(2))), "GreaterOrEqual", 6.0)]),
            ("|x|>=2", "GreaterOrEqual", [("abs(x)>=2", ab(x), "GreaterOrEqual", 2.0), ("abs(x)*-2<=-4", bop("Mul", ab(x), num(-2)), "LessOrEqual", -4.0), ("-2*abs(x)<=-4", bop("Mul", num(-2), ab(x)), "LessOrEqual", -4.0), ("abs(x)/-0.5<=-4", bop("Div", ab(x), num(-0.5)), "LessOrEqual", -4.0)]),
            ("min(x,y)>=-3", "GreaterOrEqual", [("min(x,y)>=-3", mn(x, var("y")), "GreaterOrEqual", -3.0), ("-2*min(x,y)<=6", bop("Mul", num(-2), mn(x, var("y"))), "LessOrEqual", 6.0), ("min(x,y)*-2<=6", bop("Mul", mn(x, var("y")), num(-2)), "LessOrEqual", 6.0),
                                              ("min(x,y)/-0.5<=6", bop("Div", mn(x, var("y")), num(-0.5)), "LessOrEqual", 6.0), ("-(min(x,y)*2)<=6", neg(bop("Mul", mn(x, var("y")), num(2))), "LessOrEqual", 6.0)])]


def run(F, tier="quick"):
    """[(label, group, problem | None)], evaluated models count"""
    I = Interp(F, max_depth=900)
    results = []
    compiled = []
    n = 0
    for label, cons, objective, opt, dx, dy, group in family(tier):
        n += 1
        r = I.call_fn(LIN, [make_model(cons, objective, opt, dx, dy)])
        if is_unknown(r):
            results.append((label, group, "eval", "compile step not evaluable: %r" % (r,)))
            continue
        if isinstance(r, V) and r.path.endswith("Result::Err"):
            # a refusal is not a wrong model; only refusals for a missing bound or a division are expected on this family
            e = r.args[0]
            kind = e.path.rsplit("::", 1)[-1] if isinstance(e, V) else str(e)
            results.append((label, group, None if kind in ("MissingFiniteBounds", "NonBinaryLogicOperand") else "refused", "refused with %s" % kind))
            continue
        try:
            L = Lin(r.args[0])
        except Exception as ex_:
            results.append((label, group, "eval", "linear model not readable: %s" % ex_))
            continue
        compiled.append((label, group, r.args[0], L))
        wf = L.well_formed()
        if wf:
            results.append((label, group, "C08", wf))
            continue
        bad = None
        try:
            for a, b in it.product(grid(dx), grid(dy)):
                env = {"x": a, "y": b}
                src = in_decl(dx, a) and in_decl(dy, b) and all(REL[rl](value(e, env), Fr(c)) for e, rl, c, _ in cons)
                point = {n_: v_ for n_, v_ in env.items() if n_ in L.vars}
                feas, best = L.feasible_and_best(point, True)
                if src != feas:
                    bad = ("C01", "at x=%s, y=%s the source model is %s but the linear model is %s" % (a, b, "satisfied" if src else "violated", "satisfiable" if feas else "unsatisfiable"))
                    break
                if src:
                    want = value(objective, env)
                    if best != want:
                        bad = ("C02", "at x=%s, y=%s the source objective is %s but the best linear objective over the auxiliaries is %s" % (a, b, want, best))
                        break
        except (OverflowError, ValueError) as ex_:
            bad = ("eval", "reference elimination failed: %s" % ex_)
        results.append((label, group, bad[0] if bad else None, bad[1] if bad else "equivalent on the grid"))
    # equivalent spellings: same domains, same feasible set
    for fam_label, _, spells in spelling_families():
        outs = []
        for sl, e, rl, c in spells:
            n += 1
            m = make_model([(e, rl, c, "")], var("x"), "Min", ("Real", -10.0, 10.0), ("Real", -4.0, 4.0))
            r = I.call_fn(LIN, [m])
            if is_unknown(r) or not (isinstance(r, V) and r.path.endswith("Result::Ok")):
                results.append(("spelling %s: %s" % (fam_label, sl), "spelling:" + fam_label, "eval", "not compiled: %r" % (r,)))
                continue
            L = Lin(r.args[0])
            outs.append((sl, L))
        if outs:
            ref_l, ref = outs[0]
            for sl, L in outs[1:]:
                pr = None
                if L.dom.get("x") != ref.dom.get("x"):
                    pr = "`%s` gives x the domain %s but `%s` gives %s" % (sl, L.dom.get("x"), ref_l, ref.dom.get("x"))
                else:
                    for a in [Fr(i, 2) for i in range(-20, 21)]:
                        f1, _ = L.feasible_and_best({"x": a}, False)
                        f2, _ = ref.feasible_and_best({"x": a}, False)
                        if f1 != f2:
                            pr = "x=%s is %s for `%s` but %s for `%s`" % (a, "feasible" if f1 else "infeasible", sl, "feasible" if f2 else "infeasible", ref_l)
                            break
                results.append(("spelling %s: %s vs %s" % (fam_label, sl, ref_l), "spelling:" + fam_label, "C10" if pr else None, pr or "same domain and feasible set"))
    _compiled[id(F), tier] = compiled
    return results, n


_compiled = {}


_cache = {}


def results_for(F, tier):
    key = (id(F), tier)
    if key not in _cache:
        _cache[key] = run(F, tier)
    return _cache[key]


def check(F, R, tier, prop):
    """report the part of COMPILE-EQUIV that belongs to property `prop` (C01 | C02 | C08 | C10)"""
    res, n = results_for(F, tier)
    R.fn(LIN)
    R.count("COMPILE-EQUIV.models", n)
    mine = {"C01": ("C01", "eval", "refused"), "C02": ("C02",), "C08": ("C08",), "C10": ("C10",), "C03": ("refused",)}[prop]
    bad = {}
    for label, group, kind, why in res:
        if kind in mine:
            bad.setdefault((kind, group), (label, why))
    text_ = {"C01": "every grid point is source-feasible iff the linear model is satisfiable there", "C02": "the best linear objective over the auxiliaries equals the source objective at every feasible grid point",
             "C08": "every compiled linear model is well formed", "C10": "equivalent spellings compile to the same domains and feasible set",
             "C03": "no well-formed model over bounded domains is refused by the compile step (a contradictory model is still a model)"}[prop]
    if not bad:
        R.ob("COMPILE-EQUIV", prop.lower() + ":all", True, "packages/rooc/src/transformers/linearizer.rs", "%s (%d models)" % (text_, n))
    for (kind, group), (label, why) in sorted(bad.items())[:20]:
        R.ob("COMPILE-EQUIV", "%s:%s" % (kind.lower(), group), False, "packages/rooc/src/transformers/linearizer.rs", "model [%s]: %s" % (label, why))


def check_render(F, R, Gm, tier):
    """C12 on compiled models: the rendering of every linear model the emulated compile step produced on the family is
    accepted by the grammar model and the converters and reads back as that model; no domain is crossed"""
    import roundtrip
    import c12
    results_for(F, tier)
    comp = _compiled.get((id(F), tier), [])
    RT = roundtrip.RoundTrip(F, Gm)
    consts = c12.std_number_constants(F)
    bad = {}
    for label, group, lm, L in comp:
        wf = L.well_formed()
        if wf and "lower end is above" in wf:
            bad.setdefault(("domain", group), (label, wf))
            continue
        r = RT.I.display(lm)
        if is_unknown(r):
            bad.setdefault(("print", group), (label, "printer not evaluable: %r" % (r,)))
            continue
        t = roundtrip.concretise(r)
        ast = RT.parse_text(t) if t is not None else ("reject", "opaque value in the rendering")
        if isinstance(ast, tuple):
            bad.setdefault(("reparse", group), (label, "rendering `%s`: %s" % ((t or "").replace("\n", "\\n")[:200], ast[1][:160])))
            continue
        try:
            ropt, rc, rk, rrows, rdoms = c12rt.read_model(ast, consts)
        except c12rt.ReadError as e:
            bad.setdefault(("read", group), (label, "rendering is not plain affine text: %s" % e))
            continue
        pr = None
        want_obj = {v: float(c) for v, c in zip(L.vars, L.obj) if c != 0}
        if L.opt != "Satisfy" and ({k: float(v) for k, v in rc.items()} != want_obj or rk != L.offset):
            pr = "objective %s + %r read back as %s + %r" % (want_obj, L.offset, rc, rk)
        if pr is None and len(rrows) != len(L.rows):
            pr = "%d rows read back as %d" % (len(L.rows), len(rrows))
        if pr is None:
            for (nm, co, rel, rhs), (rnm, rco, rrel, rrhs) in zip(L.rows, rrows):
                want = {v: float(c) for v, c in zip(L.vars, co) if c != 0}
                if (nm, want, rel, float(rhs)) != (rnm, {k: float(v) for k, v in rco.items()}, rrel, float(rrhs)):
                    pr = "row (%r, %s %s %r) read back as (%r, %s %s %r)" % (nm, want, rel, rhs, rnm, rco, rrel, rrhs)
                    break
        if pr is None:
            for v in L.vars:
                k, a = L.dom[v]
                want = (k, tuple(float(z) for z in a)) if k != "Boolean" else ("Boolean", ())
                if v not in rdoms or not c12rt.same_domain(rdoms[v], want):
                    pr = "domain of %s %r read back as %r" % (v, want, rdoms.get(v))
                    break
        if pr:
            bad.setdefault(("same-model", group), (label, pr))
    R.count("COMPILE-RENDER.models", len(comp))
    if not bad:
        # too few compiled models means the compile step was not evaluable on this tree (COMPILE-EQUIV says why): nothing to render
        R.ob("COMPILE-RENDER", "all", len(comp) >= 50, "packages/rooc/src/transformers/linear_model.rs", "the rendering of all %d compiled linear models of the family is accepted and reads back as the model%s" % (len(comp), "" if len(comp) >= 50 else " (not evaluable: the compile step produced too few models)"), undecided=len(comp) < 50)
    for (kind, group), (label, why) in sorted(bad.items())[:20]:
        R.ob("COMPILE-RENDER", "%s:%s" % (kind, group), False, "packages/rooc/src/transformers/linear_model.rs", "model [%s]: %s" % (label, why))
