"""SIMPLEX-EQUIV (C05, C14, C04, C03): the crate's own simplex path evaluated on a family of small linear programs.

solve_real_lp_problem_slow_simplex -- LinearModel::into_standard_form, StandardLinearModel::into_tableau (direct basis or
two-phase start with the drive-out of artificial variables), Tableau::solve (entering rule, ratio test, Bland's rule
after stalls, pivot), OptimalTableau::as_lp_solution -- is evaluated from its typed HIR with IEEE doubles (python floats,
the same operations in the same order) on programs of 1-4 variables whose exact answer is known: the reference is
Fourier-Motzkin elimination over the rationals on the same data (no tolerance).  Per program:

  verdict   Optimal / Infeasible / Unbounded must be the exact verdict (C05)
  value     an optimal value within 1e-6 (relative) of the exact optimum (C05, C03)
  point     the returned assignment names every variable of the model once, lies in every declared range and satisfies
            every row within 1e-6, and its objective (with the constant) is the reported value (C04)
  steps     for the step-wise entry point the tableau after every pivot has non-negative right-hand sides, unit basic
            columns and a monotone objective (C14)

Families: bounded / half-bounded / free variables, <=, >=, = rows, negative right-hand sides (two-phase start), redundant
and degenerate rows, infeasible by a wide and by a narrow margin next to large right-hand sides, unbounded rays, ties in
the ratio test at small and at large magnitudes, objective constants, max and min, Beale's cycling example.

The same caveat as for COMPILE-EQUIV applies: a bounded family evaluated by an abstract machine, not a proof; no compiled
code of the crate runs."""
from fractions import Fraction as Fr
from interp import Interp, Var, Rope, ListV, MutRef, Unknown, is_unknown, OK_PATHS, ERR_PATHS
import c01rt
import c04rt

SLOW = "solvers::simplex::simplex_solver::solve_real_lp_problem_slow_simplex"
INF = float("inf")


def programs(tier):
    out = []

    def p(label, vars_, rows, obj, sense="Min", offset=0.0, known=None):
        out.append({"label": label, "vars": vars_, "rows": rows, "obj": obj, "sense": sense, "offset": offset, "real_only": True, "known": known})
    NN = lambda lo=0.0, hi=INF: ("NonNegativeReal", lo, hi)
    RL = lambda lo=-INF, hi=INF: ("Real", lo, hi)
    # textbook
    p("two products", [("x", NN()), ("y", NN())], [("m", [3.0, 2.0], "LessOrEqual", 18.0), ("l", [1.0, 0.0], "LessOrEqual", 4.0), ("k", [0.0, 2.0], "LessOrEqual", 12.0)], [3.0, 5.0], "Max")
    p("two products, constant", [("x", NN()), ("y", NN())], [("m", [3.0, 2.0], "LessOrEqual", 18.0), ("l", [1.0, 0.0], "LessOrEqual", 4.0), ("k", [0.0, 2.0], "LessOrEqual", 12.0)], [3.0, 5.0], "Max", 7.5)
    p("diet", [("a", NN()), ("b", NN())], [("p", [2.0, 1.0], "GreaterOrEqual", 8.0), ("q", [1.0, 3.0], "GreaterOrEqual", 9.0)], [4.0, 3.0], "Min")
    p("diet, constant", [("a", NN()), ("b", NN())], [("p", [2.0, 1.0], "GreaterOrEqual", 8.0), ("q", [1.0, 3.0], "GreaterOrEqual", 9.0)], [4.0, 3.0], "Min", -2.0)
    p("equality row", [("x", NN()), ("y", NN()), ("z", NN())], [("e", [1.0, 1.0, 1.0], "Equal", 10.0), ("c", [1.0, -1.0, 0.0], "LessOrEqual", 2.0)], [1.0, 2.0, 3.0], "Min")
    p("equality row, max", [("x", NN()), ("y", NN()), ("z", NN())], [("e", [1.0, 1.0, 1.0], "Equal", 10.0), ("c", [1.0, -1.0, 0.0], "LessOrEqual", 2.0)], [1.0, 2.0, 3.0], "Max")
    # declared ranges: bounded, positive lower ends, free variables, bounded after unbounded
    p("ranges", [("x", RL(-3.0, 4.0)), ("y", NN(1.0, 6.0))], [("s", [1.0, 1.0], "LessOrEqual", 8.0), ("d", [1.0, -1.0], "GreaterOrEqual", -4.0)], [1.0, 1.0], "Max")
    p("ranges, min", [("x", RL(-3.0, 4.0)), ("y", NN(1.0, 6.0))], [("s", [1.0, 1.0], "LessOrEqual", 8.0), ("d", [1.0, -1.0], "GreaterOrEqual", -4.0)], [1.0, 2.0], "Min")
    p("free variable", [("f", RL()), ("x", NN(0.0, 5.0))], [("r", [1.0, 1.0], "GreaterOrEqual", -2.0), ("u", [1.0, -1.0], "LessOrEqual", 3.0)], [1.0, 0.5], "Min")
    p("free then bounded", [("z", RL()), ("x", RL(-3.0, 4.0)), ("y", NN(1.0, INF))], [("a", [1.0, 1.0, 1.0], "LessOrEqual", 9.0), ("b", [1.0, 0.0, -1.0], "GreaterOrEqual", -5.0), ("c", [-1.0, 2.0, 0.0], "LessOrEqual", -1.0)], [1.0, 1.0, 1.0], "Max")
    p("default then bounded", [("x", NN()), ("y", NN(0.0, 3.0))], [("c", [1.0, 0.0], "LessOrEqual", 10.0)], [1.0, 1.0], "Max")
    p("half-bounded below", [("v", RL(-INF, 3.0)), ("w", NN())], [("r", [1.0, 1.0], "GreaterOrEqual", -1.0), ("t", [-1.0, 1.0], "LessOrEqual", 6.0)], [1.0, 1.0], "Max")
    # a one-sided range whose finite end is the binding one at the optimum
    p("lower end of a half-bounded range binds", [("x", RL(-5.0, INF)), ("y", NN(0.0, 8.0))], [("r", [1.0, 1.0], "GreaterOrEqual", -20.0)], [1.0, 0.5], "Min")
    p("upper end of a half-bounded range binds", [("x", RL(-INF, 3.0)), ("y", NN())], [("a", [1.0, 1.0], "LessOrEqual", 5.0)], [2.0, 1.0], "Max")
    p("upper end of a half-bounded range binds, wide row", [("x", RL(-INF, 3.0)), ("y", NN(0.0, 4.0))], [("a", [1.0, 1.0], "LessOrEqual", 50.0)], [1.0, 1.0], "Max", 1.5)
    # two-phase starts
    p("negative right-hand sides", [("x", NN()), ("y", NN())], [("a", [-1.0, -1.0], "LessOrEqual", -2.0), ("b", [1.0, -1.0], "GreaterOrEqual", -3.0), ("c", [1.0, 1.0], "LessOrEqual", 7.0)], [2.0, 1.0], "Min")
    p("redundant equality", [("x", NN()), ("y", NN())], [("e1", [1.0, 1.0], "Equal", 4.0), ("e2", [2.0, 2.0], "Equal", 8.0), ("c", [1.0, 0.0], "LessOrEqual", 3.0)], [1.0, -1.0], "Min")
    p("degenerate vertex", [("x", NN()), ("y", NN())], [("a", [1.0, 1.0], "LessOrEqual", 4.0), ("b", [1.0, 0.0], "LessOrEqual", 4.0), ("c", [1.0, 2.0], "LessOrEqual", 4.0)], [1.0, 1.0], "Max")
    p("artificial stays basic at zero", [("x", NN()), ("y", NN())], [("e", [1.0, -1.0], "Equal", 0.0), ("g", [1.0, 1.0], "GreaterOrEqual", 2.0), ("l", [1.0, 0.0], "LessOrEqual", 5.0)], [1.0, 1.0], "Min")
    # infeasible
    p("infeasible, wide", [("x", NN()), ("y", NN())], [("a", [1.0, 1.0], "LessOrEqual", 2.0), ("b", [1.0, 1.0], "GreaterOrEqual", 5.0)], [1.0, 1.0], "Min")
    p("infeasible, narrow", [("x", NN())], [("a", [1.0], "LessOrEqual", 1.0), ("b", [1.0], "GreaterOrEqual", 1.5)], [1.0], "Min")
    p("infeasible, narrow next to a large right-hand side", [("x", NN()), ("y", NN())], [("a", [1.0, 0.0], "LessOrEqual", 1.0), ("b", [1.0, 0.0], "GreaterOrEqual", 1.5), ("c", [0.0, 1.0], "LessOrEqual", 100000.0)], [1.0, 1.0], "Min")
    p("infeasible by one in three hundred thousand", [("x", NN()), ("y", NN())], [("a", [1.0, 1.0], "GreaterOrEqual", 300001.0), ("b", [1.0, 1.0], "LessOrEqual", 300000.0), ("c", [1.0, -1.0], "Equal", 0.0)], [1.0, 2.0], "Min")
    p("infeasible by the declared range", [("x", NN(0.0, 2.0))], [("a", [1.0], "GreaterOrEqual", 3.0)], [1.0], "Max")
    # unbounded
    p("unbounded ray", [("x", NN()), ("y", NN())], [("a", [1.0, -1.0], "LessOrEqual", 2.0)], [1.0, 1.0], "Max")
    p("unbounded below, free", [("f", RL()), ("x", NN())], [("a", [1.0, 1.0], "LessOrEqual", 5.0)], [1.0, 0.0], "Min")
    p("bounded in the objective's direction only", [("x", NN()), ("y", NN())], [("a", [1.0, -1.0], "LessOrEqual", 2.0)], [1.0, 0.0], "Min")
    # ratio-test ties and large magnitudes
    p("ratio tie", [("x", NN()), ("y", NN())], [("a", [1.0, 1.0], "LessOrEqual", 6.0), ("b", [1.0, 2.0], "LessOrEqual", 6.0), ("c", [2.0, 1.0], "LessOrEqual", 12.0)], [1.0, 1.0], "Max")
    p("close ratios at a large magnitude", [("x", NN()), ("y", NN())], [("a", [1.0, 1.0], "LessOrEqual", 1000005.0), ("b", [1.0, 0.0], "LessOrEqual", 1000000.0)], [1.0, 0.0], "Max")
    p("close ratios at a medium magnitude", [("x", NN()), ("y", NN())], [("a", [1.0, 2.0], "LessOrEqual", 300.002), ("b", [1.0, 0.0], "LessOrEqual", 300.0), ("c", [0.0, 1.0], "LessOrEqual", 50.0)], [2.0, 1.0], "Max")
    p("large coefficients", [("x", NN()), ("y", NN())], [("a", [1000.0, 2000.0], "LessOrEqual", 4000000.0), ("b", [3000.0, 1000.0], "LessOrEqual", 6000000.0)], [5.0, 4.0], "Max")
    p("small coefficients", [("x", NN()), ("y", NN())], [("a", [0.001, 0.002], "LessOrEqual", 0.004), ("b", [0.003, 0.001], "LessOrEqual", 0.006)], [5.0, 4.0], "Max")
    # direct basis: every row has a column of its own, with a coefficient other than 1 and a non-zero cost
    p("separable rows, non-unit columns", [("x", NN()), ("y", NN())], [("a", [2.0, 0.0], "LessOrEqual", 8.0), ("b", [0.0, 1.0], "LessOrEqual", 3.0)], [3.0, 2.0], "Max")
    p("separable rows, non-unit columns, constant", [("x", NN()), ("y", NN()), ("z", NN())], [("a", [4.0, 0.0, 0.0], "LessOrEqual", 10.0), ("b", [0.0, 0.5, 0.0], "LessOrEqual", 3.0), ("c", [0.0, 0.0, 3.0], "LessOrEqual", 9.0)], [-1.0, -4.0, 1.0], "Min", 7.0)
    p("one separable row among coupled ones", [("a", NN()), ("b", NN()), ("c", NN())], [("r", [1.0, 1.0, 0.0], "LessOrEqual", 10.0), ("s", [1.0, -1.0, 0.0], "LessOrEqual", 2.0), ("t", [0.0, 0.0, 4.0], "LessOrEqual", 6.0)], [2.0, 1.0, 5.0], "Max")
    # phase 1 ends degenerate with an artificial variable basic in a row whose structural entries are all negative
    p("degenerate phase one, negative row", [("x", NN()), ("y", NN()), ("z", NN())], [("e1", [1.0, 1.0, 0.0], "Equal", 2.0), ("e2", [1.0, 1.0, -1.0], "Equal", 2.0)], [0.0, 0.0, 1.0], "Max")
    p("all-negative equality at level zero", [("x", NN()), ("y", NN())], [("e", [-1.0, -1.0], "Equal", 0.0), ("a", [1.0, 0.0], "LessOrEqual", 5.0), ("b", [0.0, 1.0], "LessOrEqual", 5.0)], [1.0, 1.0], "Max")
    p("all-negative >= row at level zero", [("x1", NN()), ("x2", NN()), ("x3", NN())], [("g", [-1.0, -1.0, 0.0], "GreaterOrEqual", 0.0), ("e", [1.0, 1.0, 1.0], "Equal", 2.0)], [1.0, 0.0, 0.0], "Max")
    # a redundant equality that is not the last row (rows are dropped after phase 1)
    p("redundant equality in the middle", [("x", NN()), ("y", NN()), ("z", NN())], [("e1", [1.0, 1.0, 0.0], "Equal", 2.0), ("e2", [2.0, 2.0, 0.0], "Equal", 4.0), ("e3", [1.0, 0.0, 1.0], "Equal", 3.0)], [1.0, 2.0, 3.0], "Min")
    p("redundant equality first, bounded below", [("x", NN()), ("y", NN()), ("z", NN())], [("e1", [1.0, -1.0, -1.0], "Equal", 2.0), ("e2", [2.0, -2.0, -2.0], "Equal", 4.0), ("g", [1.0, 0.0, 0.0], "GreaterOrEqual", 1.0)], [2.0, 0.0, -1.0], "Min")
    p("redundant equality, max", [("x", NN()), ("y", NN()), ("z", NN())], [("e1", [0.0, 1.0, 0.0], "Equal", 2.0), ("e2", [0.0, 2.0, 0.0], "Equal", 4.0), ("e3", [2.0, -1.0, -1.0], "Equal", 2.0)], [2.0, 1.0, 0.0], "Min")
    # a tiny entry in the entering column next to a large entering value
    p("tiny entry in the entering column", [("x", NN()), ("y", NN())], [("a", [1.0, 0.0], "LessOrEqual", 4e6), ("b", [1e-6, 1.0], "LessOrEqual", 10.0), ("c", [1.0, 1.0], "LessOrEqual", 1e7)], [2.0, 1.0], "Max")
    # cycling under the largest-coefficient rule without a consistent tie-break (Chvatal)
    p("Chvatal", [("y1", NN()), ("y2", NN()), ("y3", NN()), ("y4", NN())],
      [("r1", [0.5, -5.5, -2.5, 9.0], "LessOrEqual", 0.0), ("r2", [0.5, -1.5, -0.5, 1.0], "LessOrEqual", 0.0), ("r3", [1.0, 0.0, 0.0, 0.0], "LessOrEqual", 1.0)], [10.0, -57.0, -9.0, -24.0], "Max")
    # the same cycling example in equality form, its slack columns interleaved with the structural ones
    p("Chvatal, equality form, interleaved slacks", [("x_0", NN()), ("x_1", NN()), ("x_2", NN()), ("x_3", NN()), ("x_4", NN()), ("x_5", NN()), ("x_6", NN())],
      [("r1", [-5.5, 0.0, 0.5, 9.0, -2.5, 1.0, 0.0], "Equal", 0.0), ("r2", [-1.5, 1.0, 0.5, 1.0, -0.5, 0.0, 0.0], "Equal", 0.0), ("r3", [0.0, 0.0, 1.0, -1.0, 0.0, 0.0, 1.0], "Equal", 1.0)],
      [57.0, 0.0, -10.0, 24.0, 9.0, 0.0, 0.0], "Min", known=("Optimal", Fr(-1)))   # Chvatal, Linear Programming, ch. 3: optimum 1 of the max form
    # cycling without an anti-cycling rule (Beale)
    p("Beale", [("x1", NN()), ("x2", NN()), ("x3", NN()), ("x4", NN())],
      [("r1", [0.25, -60.0, -0.04, 9.0], "LessOrEqual", 0.0), ("r2", [0.5, -90.0, -0.02, 3.0], "LessOrEqual", 0.0), ("r3", [0.0, 0.0, 1.0, 0.0], "LessOrEqual", 1.0)], [-0.75, 150.0, -0.02, 6.0], "Min")
    # direct start or two phases: as many columns of their own as there are rows, but not one per row (a row with two own
    # columns next to an = / >= row with none)
    p("own columns crowd one row, equality has none", [("x", NN()), ("y", NN())], [("a", [1.0, 1.0], "LessOrEqual", 4.0), ("e", [0.0, 1.0], "Equal", 1.5)], [1.0, 0.0], "Max")
    p("own columns crowd one row, equality has none, infeasible", [("x", NN()), ("y", NN())], [("a", [1.0, 1.0], "LessOrEqual", 4.0), ("e", [0.0, 1.0], "Equal", 6.0)], [1.0, 0.0], "Max")
    p("own columns crowd one row, >= row has none", [("x", NN()), ("y", NN())], [("a", [1.0, 1.0], "LessOrEqual", 4.0), ("g", [0.0, 1.0], "GreaterOrEqual", 1.0)], [1.0, 0.0], "Max")
    p("own columns crowd two rows, = and >= rows have none", [("x", NN()), ("y", NN()), ("u", NN()), ("v", NN())],
      [("a", [1.0, 1.0, 0.0, 0.0], "LessOrEqual", 10.0), ("b", [0.0, 0.0, 1.0, 1.0], "LessOrEqual", 8.0), ("e", [0.0, 1.0, 0.0, 1.0], "Equal", 5.0), ("g", [0.0, 1.0, 0.0, -1.0], "GreaterOrEqual", 1.0)], [-1.0, 0.0, -1.0, 0.0], "Min")
    p("negative right-hand side <= row has no own column", [("x", NN()), ("y", NN())], [("a", [1.0, 1.0], "LessOrEqual", 6.0), ("n", [0.0, -1.0], "LessOrEqual", -2.0)], [1.0, 0.0], "Max")
    # names starting with `$` are not reserved for the standard form: auxiliaries of the lowering ($abs_0) and user variables
    # ($margin) are variables of the model and come back with a value
    p("dollar names of the model", [("$abs_0", NN()), ("$margin", NN(0.0, 6.0)), ("x", NN()), ("$shift", RL(-3.0, 3.0))], [("a", [1.0, 0.0, -1.0, 0.0], "GreaterOrEqual", -7.0), ("b", [1.0, 0.0, 1.0, 0.0], "GreaterOrEqual", 7.0), ("c", [0.0, 1.0, 1.0, 1.0], "LessOrEqual", 9.0)], [1.0, -1.0, 2.0, 1.0], "Min")
    # infeasible rows next to a variable that occurs in no row and improves the objective without limit: infeasible, not unbounded
    p("infeasible with an unconstrained improving variable, max", [("x", NN()), ("y", NN())], [("a", [1.0, 0.0], "LessOrEqual", 1.0), ("b", [1.0, 0.0], "GreaterOrEqual", 2.0)], [1.0, 1.0], "Max")
    p("infeasible empty row with a free improving variable, min", [("x", NN()), ("z", RL())], [("e", [0.0, 0.0], "Equal", 1.0)], [1.0, -1.0], "Min")
    p("infeasible equalities with an unconstrained improving variable", [("x", NN()), ("y", NN()), ("w", NN())], [("e1", [1.0, 1.0, 0.0], "Equal", 2.0), ("e2", [1.0, 1.0, 0.0], "Equal", 3.0)], [0.0, 0.0, -1.0], "Min")
    p("unbounded through a variable that occurs in no row", [("x", NN()), ("y", NN())], [("a", [1.0, 0.0], "LessOrEqual", 1.0)], [1.0, 1.0], "Max")
    # two-phase starts whose first phase meets a row that already holds a structural variable with the smallest ratio while a
    # later row still holds an artificial one with a larger ratio
    p("phase one: smallest ratio in a structural row", [("x1", NN()), ("x2", NN()), ("x3", NN())], [("r1", [0.0, 3.0, 3.0], "Equal", 6.0), ("r2", [0.0, 1.0, 3.0], "Equal", 2.0), ("r3", [2.0, 3.0, 3.0], "Equal", 10.0)], [1.0, 1.0, 1.0], "Min")
    p("phase one: smallest ratio in a structural row, four columns", [("x1", NN()), ("x2", NN()), ("x3", NN()), ("x4", NN())], [("r1", [0.0, 2.0, 1.0, -1.0], "Equal", 1.0), ("r2", [3.0, 3.0, 3.0, 0.0], "Equal", 6.0), ("r3", [2.0, 0.0, 2.0, 0.0], "Equal", 2.0)], [1.0, 2.0, 1.0, 1.0], "Min")
    p("phase one: negative right-hand side equality", [("x_1", NN()), ("x_2", NN()), ("x_3", NN())], [("r1", [-2.0, -2.0, 2.0], "Equal", -6.0), ("r2", [1.0, 1.0, 1.0], "Equal", 5.0)], [3.0, 2.0, 2.0], "Min")
    # phase one ends with an artificial variable basic at level zero in a later row whose leaving column also occurs in an
    # earlier row
    p("drive-out column occurs in an earlier row", [("x0", NN()), ("x1", NN()), ("x2", NN()), ("x3", NN())], [("r1", [0.0, 1.0, 1.0, 2.0], "Equal", 3.0), ("r2", [-1.0, -2.0, 0.0, 0.0], "Equal", 0.0), ("r3", [-2.0, 0.0, 1.0, 0.0], "Equal", 3.0)], [-2.0, 1.0, -3.0, 2.0], "Max")
    p("drive-out column occurs in an earlier row, only the origin", [("x0", NN()), ("x1", NN()), ("x2", NN()), ("x3", NN())], [("r1", [1.0, 2.0, 0.0, -2.0], "Equal", 0.0), ("r2", [-2.0, -2.0, -1.0, 0.0], "Equal", 0.0)], [2.0, 3.0, 2.0, -3.0], "Max")
    if tier == "thorough":
        # equality systems with small whole coefficients (two-phase starts of every shape), a fixed pseudo-random sample
        import random as _rnd
        rg = _rnd.Random(20260926)
        for k_ in range(400):
            nv, nr = rg.choice((3, 3, 4)), rg.choice((2, 3, 3))
            rows_ = []
            for r_ in range(nr):
                co = [float(rg.choice((0, 0, 1, 1, 2, 3, -1, -2))) for _ in range(nv)]
                if not any(co):
                    co[rg.randrange(nv)] = 1.0
                rows_.append(("r%d" % r_, co, rg.choice(("Equal", "Equal", "LessOrEqual", "GreaterOrEqual")), float(rg.choice((-6, -2, 0, 1, 2, 5, 6, 10)))))
            p("equality system %d" % k_, [("x%d" % i_, NN()) for i_ in range(nv)], rows_, [float(rg.choice((0, 1, 2, 3, -1))) for _ in range(nv)], rg.choice(("Min", "Max")))
    if tier == "thorough":
        # a sweep of small programs: every sign pattern of a 2 x 2 system with a box
        k = 0
        for a11 in (-1.0, 1.0, 2.0):
            for a12 in (-1.0, 1.0):
                for a21 in (-2.0, 1.0):
                    for cmp1 in ("LessOrEqual", "GreaterOrEqual", "Equal"):
                        for b1 in (-2.0, 3.0):
                            for sense in ("Min", "Max"):
                                k += 1
                                p("sweep %d" % k, [("x", RL(-2.0, 5.0)), ("y", NN(0.0, 4.0))], [("a", [a11, a12], cmp1, b1), ("b", [a21, 1.0], "LessOrEqual", 3.0)], [1.0, -2.0 if k % 2 else 3.0], sense, 0.5 if k % 3 == 0 else 0.0)
    return out


def exact(md):
    """exact verdict and optimum of a program over the rationals: ('Optimal', Fraction) | ('Infeasible',) | ('Unbounded',)"""
    if md.get("known") is not None:
        return md["known"]     # elimination is doubly exponential: programs of more than four variables carry their textbook answer
    n = len(md["vars"])
    if n > 4:
        raise ValueError("program %r has %d variables and no known answer" % (md["label"], n))
    rows = []
    F_ = lambda x: Fr(x).limit_denominator(10 ** 9) if x not in (INF, -INF) else x
    for name, coeffs, cmp_, rhs in md["rows"]:
        rows.append(([F_(c) for c in coeffs], cmp_, F_(rhs)))
    for i, (name, dom) in enumerate(md["vars"]):
        unit = [Fr(1) if j == i else Fr(0) for j in range(n)]
        if dom[1] != -INF:
            rows.append((unit, "GreaterOrEqual", F_(dom[1])))
        if dom[2] != INF:
            rows.append((unit, "LessOrEqual", F_(dom[2])))
    if not c01rt.fm_feasible(rows, n):
        return ("Infeasible",)
    if md["sense"] == "Satisfy":
        return ("Optimal", F_(md["offset"]))
    v = c01rt.fm_optimum(rows, n, [F_(c) for c in md["obj"]], md["sense"])
    if v is None:
        return ("Infeasible",)
    if v in (c01rt.INF, -c01rt.INF) or v in (INF, -INF):
        return ("Unbounded",)
    return ("Optimal", v + F_(md["offset"]))


def verdict_of(r):
    if isinstance(r, Var) and r.path in OK_PATHS:
        return ("Optimal", r.args[0])
    if isinstance(r, Var) and r.path in ERR_PATHS and isinstance(r.args[0], Var):
        return (r.args[0].path.rsplit("::", 1)[-1], r.args[0])
    return ("?", r)


def check(F, R, tier="quick", props=("C05", "C04", "C14", "C03")):
    where = "packages/rooc/src/solvers/simplex"
    if F.fn(SLOW) is None:
        R.undecided("SIMPLEX-EQUIV", "anchor", where, "solve_real_lp_problem_slow_simplex not found")
        return
    I = Interp(F)
    I.concrete_floats = True
    I.max_depth = 800
    R.fn(SLOW)
    for f in ("solvers::simplex::tableau::Tableau::solve", "solvers::simplex::tableau::Tableau::step", "transformers::standard_linear_model::StandardLinearModel::into_tableau", "solvers::simplex::optimal_tableau::OptimalTableau::as_lp_solution"):
        R.fn(f)
    ps = programs(tier)
    R.count("SIMPLEX-EQUIV.programs", len(ps))
    n_opt = n_inf = n_unb = 0
    for md in ps:
        key = md["label"].replace(" ", "-")
        lm = c04rt.build_model(I, md)
        if is_unknown(lm):
            R.undecided("SIMPLEX-EQUIV", key + ":model", where, "the model could not be built: %r" % (lm,))
            continue
        r = I.call_fn(SLOW, [lm, 300])
        if is_unknown(r):
            R.undecided("SIMPLEX-EQUIV", key, where, "simplex path not evaluable: %r" % (r,))
            continue
        want = exact(md)
        got = verdict_of(r)
        n_opt += want[0] == "Optimal"
        n_inf += want[0] == "Infeasible"
        n_unb += want[0] == "Unbounded"
        text = "%s %s s.t. %s, %s" % (md["sense"].lower(), md["obj"], "; ".join("%s %s %s" % (c, {"LessOrEqual": "<=", "GreaterOrEqual": ">=", "Equal": "="}[k], b) for _, c, k, b in md["rows"]), ", ".join("%s in [%s, %s]" % (n, d[1], d[2]) for n, d in md["vars"]))
        if "C05" in props or "C03" in props:
            R.ob("SIMPLEX-EQUIV", key + ":verdict", got[0] == want[0], where, "`%s`: the exact verdict is %s%s, the simplex path answers %s%s" % (text, want[0], " (%s)" % float(want[1]) if len(want) > 1 else "", got[0], " (%r)" % (got[1].fields.get("value"),) if got[0] == "Optimal" and isinstance(got[1], Var) else ""))
        if got[0] != "Optimal" or want[0] != "Optimal":
            continue
        sol = got[1]
        val = sol.fields.get("value") if isinstance(sol, Var) else None
        val = val.get() if isinstance(val, MutRef) else val
        ref = float(want[1])
        if "C05" in props or "C03" in props:
            R.ob("SIMPLEX-EQUIV", key + ":value", isinstance(val, (int, float)) and abs(val - ref) <= 1e-6 * max(1.0, abs(ref)), where, "`%s`: the exact optimum is %r, the simplex path reports %r" % (text, ref, val))
        if "C04" in props:
            asg = sol.fields.get("assignment") if isinstance(sol, Var) else None
            point = {}
            names = []
            if isinstance(asg, ListV):
                for a in asg.items:
                    if isinstance(a, Var) and "name" in a.fields:
                        nm = a.fields["name"]
                        nm = nm.text() if isinstance(nm, Rope) else nm
                        v = a.fields.get("value")
                        v = v.get() if isinstance(v, MutRef) else v
                        names.append(nm)
                        point[nm] = v
            ok_names = sorted(names) == sorted(n for n, _ in md["vars"])
            R.ob("SIMPLEX-EQUIV", key + ":names", ok_names, where, "`%s`: the model has variables %s, the solution names %s" % (text, [n for n, _ in md["vars"]], names))
            if ok_names and all(isinstance(point[n], (int, float)) for n in point):
                bad = []
                for n, dom in md["vars"]:
                    x = point[n]
                    if x < dom[1] - 1e-6 * max(1.0, abs(dom[1]) if dom[1] != -INF else 1.0) or x > dom[2] + 1e-6 * max(1.0, abs(dom[2]) if dom[2] != INF else 1.0):
                        bad.append("%s = %r is outside [%s, %s]" % (n, x, dom[1], dom[2]))
                for name, coeffs, cmp_, rhs in md["rows"]:
                    act = sum(c * point[n] for c, (n, _) in zip(coeffs, md["vars"]))
                    tol = 1e-6 * max(1.0, abs(rhs))
                    if (cmp_ == "LessOrEqual" and act > rhs + tol) or (cmp_ == "GreaterOrEqual" and act < rhs - tol) or (cmp_ == "Equal" and abs(act - rhs) > tol):
                        bad.append("row %s: %r %s %r is violated" % (name, act, cmp_, rhs))
                objv = sum(c * point[n] for c, (n, _) in zip(md["obj"], md["vars"])) + md["offset"]
                if isinstance(val, (int, float)) and abs(objv - val) > 1e-6 * max(1.0, abs(val)):
                    bad.append("the objective at the returned point is %r, the reported value %r" % (objv, val))
                R.ob("SIMPLEX-EQUIV", key + ":point", not bad, where, "`%s`: returned point %s: %s" % (text, point, "; ".join(bad) or "feasible and consistent"))
    if "C14" in props:
        step_invariants(I, R, ps)
    R.count("SIMPLEX-EQUIV.optimal", n_opt)
    R.count("SIMPLEX-EQUIV.infeasible", n_inf)
    R.count("SIMPLEX-EQUIV.unbounded", n_unb)


STD = "transformers::linear_model::LinearModel::into_standard_form"
TAB = "transformers::standard_linear_model::StandardLinearModel::into_tableau"
STEPS = "solvers::simplex::tableau::Tableau::solve_step_by_step"


def _plain(v):
    v = v.get() if isinstance(v, MutRef) else v
    if isinstance(v, ListV):
        return [_plain(x) for x in v.items]
    return v


def _tableau(t):
    """(a, b, c, in_basis) of an evaluated Tableau, or None when it is laid out differently"""
    t = t.get() if isinstance(t, MutRef) else t
    if not isinstance(t, Var):
        return None
    try:
        a, b, c, bs = (_plain(t.fields[k]) for k in ("a", "b", "c", "in_basis"))
    except KeyError:
        return None
    num = lambda x: isinstance(x, (int, float)) and not isinstance(x, bool)
    if not (isinstance(a, list) and isinstance(b, list) and isinstance(c, list) and isinstance(bs, list)):
        return None
    if len(a) != len(b) or len(bs) != len(b) or any(not isinstance(r, list) or len(r) != len(c) for r in a):
        return None
    if not all(num(x) for r in a for x in r) or not all(num(x) for x in b) or not all(num(x) for x in c) or not all(isinstance(j, int) and 0 <= j < len(c) for j in bs):
        return None
    return a, b, c, bs


def step_invariants(I, R, ps):
    """STEP-INVARIANT (C14): the crate's step-wise entry point evaluated pivot by pivot.

    Tableau::solve_step_by_step records the tableau before every pivot; with the final one that is the whole sequence
    T_0 .. T_n the method went through from the canonical tableau that into_tableau built.  For every T_k:
      basis      the basic columns are unit columns (1 in their own row, 0 elsewhere, reduced cost 0)
      feasible   the right-hand sides, i.e. the basic solution x_k, are non-negative
      equivalent x_k satisfies the equations of T_0, and x_0 ... x_n all satisfy the equations of T_k (a pivot that changed
                 the solution set would lose one of these points)
      monotone   the objective of T_0 (its reduced costs, a function of x alone) at x_k is not worse than at x_(k-1)
    and for the last one, when the method stops with a solution: no reduced cost is negative.  All comparisons with 1e-6
    relative to the magnitudes involved; nothing here depends on how `current_value` is signed or stored."""
    where = "packages/rooc/src/solvers/simplex/tableau.rs"
    if F_missing(I, (STD, TAB, STEPS)):
        R.undecided("STEP-INVARIANT", "anchor", where, "into_standard_form / into_tableau / solve_step_by_step not found")
        return
    R.fn(STEPS)
    R.fn("solvers::simplex::tableau::Tableau::pivot")
    n_seq = n_piv = 0
    for md in ps:
        key = md["label"].replace(" ", "-")
        lm = c04rt.build_model(I, md)
        if is_unknown(lm):
            continue
        std = I.call_fn(STD, [lm])
        if not (isinstance(std, Var) and std.path in OK_PATHS):
            continue
        tb = I.call_fn(TAB, [std.args[0]])
        if is_unknown(tb):
            R.undecided("STEP-INVARIANT", key, where, "into_tableau not evaluable: %r" % (tb,))
            continue
        if not (isinstance(tb, Var) and tb.path in OK_PATHS):
            continue            # infeasible in phase one: no sequence of pivots to look at (verdict: SIMPLEX-EQUIV)
        t0 = tb.args[0]
        first = _tableau(t0)
        r = I.call_fn(STEPS, [t0, 300])
        if is_unknown(r):
            R.undecided("STEP-INVARIANT", key, where, "solve_step_by_step not evaluable: %r" % (r,))
            continue
        seq = None
        finished = isinstance(r, Var) and r.path in OK_PATHS
        if finished:
            res = r.args[0]
            try:
                steps = res.fields["steps"]
                seq = [_tableau(s.fields["tableau"]) for s in steps.items] + [_tableau(res.fields["result"].fields["tableau"])]
            except (AttributeError, KeyError):
                seq = None
        else:
            # unbounded / limit: the method worked in place, the tableau it stopped at is the last of the sequence
            seq = [first, _tableau(t0)]
        if first is None or seq is None or any(s is None for s in seq):
            R.undecided("STEP-INVARIANT", key, where, "the recorded steps are laid out differently from {a, b, c, in_basis} / {steps[].tableau, result.tableau}")
            continue
        if seq[0] != first and finished:
            seq = [first] + seq
        n_seq += 1
        n_piv += len(seq) - 1
        a0, b0, c0, _ = first
        tol = lambda *xs: 1e-6 * max([1.0] + [abs(x) for x in xs])
        points = []
        for (a, b, c, bs) in seq:
            x = [0.0] * len(c)
            for i, j in enumerate(bs):
                x[j] = b[i]
            points.append(x)
        bad = []
        prev_obj = None
        for k, (a, b, c, bs) in enumerate(seq):
            amax = max([abs(v) for r_ in a for v in r_] + [1.0])
            if len(set(bs)) != len(bs):
                bad.append("tableau %d: a column is basic in two rows %s" % (k, bs))
            for i, j in enumerate(bs):
                col = [a[r_][j] for r_ in range(len(a))]
                if abs(col[i] - 1.0) > 1e-6 * amax or any(abs(col[r_]) > 1e-6 * amax for r_ in range(len(a)) if r_ != i) or abs(c[j]) > 1e-6 * max([1.0] + [abs(v) for v in c]):
                    bad.append("tableau %d: basic column %d of row %d is %s with reduced cost %r, not a unit column" % (k, j, i, col, c[j]))
                    break
            neg = [(i, v) for i, v in enumerate(b) if v < -tol(*b)]
            if neg:
                bad.append("tableau %d: right-hand side %r of row %d is negative" % (k, neg[0][1], neg[0][0]))
            x = points[k]
            for i, row in enumerate(a0):
                act = sum(p * q for p, q in zip(row, x))
                if abs(act - b0[i]) > tol(b0[i], *[p * q for p, q in zip(row, x)]):
                    bad.append("tableau %d: its basic solution %s gives %r in row %d of the first tableau, whose right-hand side is %r" % (k, x, act, i, b0[i]))
                    break
            for m, y in enumerate(points):
                hit = False
                for i, row in enumerate(a):
                    act = sum(p * q for p, q in zip(row, y))
                    if abs(act - b[i]) > tol(b[i], *[p * q for p, q in zip(row, y)]):
                        bad.append("tableau %d: the basic solution %s of tableau %d gives %r in its row %d, whose right-hand side is %r: the systems are not equivalent" % (k, y, m, act, i, b[i]))
                        hit = True
                        break
                if hit:
                    break
            obj = sum(p * q for p, q in zip(c0, x))
            if prev_obj is not None and obj > prev_obj + tol(obj, prev_obj):
                bad.append("tableau %d: the objective of the first tableau is %r at its basic solution, %r one pivot earlier: it got worse" % (k, obj, prev_obj))
            prev_obj = obj
        if finished:
            a, b, c, bs = seq[-1]
            negc = [(j, v) for j, v in enumerate(c) if v < -tol(*c)]
            if negc:
                bad.append("the method stopped with a solution while reduced cost %r of column %d is negative" % (negc[0][1], negc[0][0]))
        R.ob("STEP-INVARIANT", key, not bad, where, "%d pivots: %s" % (len(seq) - 1, "; ".join(bad[:3]) or "unit basic columns, non-negative basic solutions, equivalent systems, monotone objective"))
    R.count("STEP-INVARIANT.sequences", n_seq)
    R.count("STEP-INVARIANT.pivots", n_piv)


def F_missing(I, paths):
    return any(I.F.fn(p) is None for p in paths)
