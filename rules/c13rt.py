"""STD-EQUIV (C13): the standard form of a family of linear models, decoded and compared with the model.

`to_standard_form` (with normalize_constraint, EqualityConstraint::new, remove_many, ...) is evaluated from its typed HIR on
a family of continuous linear models covering every case the code distinguishes: free / half-bounded / bounded / default
variables (several free ones, interleaved with others), rows of every relation with positive, zero, negative and tiny
negative right-hand sides, both senses, offsets.  The result is decoded by the textbook construction and must be exactly:
  rows   first the model's rows, then one row per non-default variable bound (lower before upper, in variable order)
  each row i      s * (a . x) + s * (slack: +1 for <=, -1 for >=, none for =) = s * b,  s = -1 iff b < 0,  rhs >= 0
  free x          its column replaced by $p x, $m x with opposite coefficients in every row and in the objective
  slack columns   named $sl_k / $su_k, appear in exactly one row, cost 0
  objective       c (negated for Max, flip flag set), offset kept
so that (x feasible for the model) <=> (some non-negative standard point with x = $p x - $m x satisfies all equalities)."""
import itertools
from interp import Var, ListV, Rope, is_unknown
import roundtrip
import c12rt

INF = float("inf")
FN = "transformers::standardizer::to_standard_form"


def text(v):
    if isinstance(v, Rope):
        return roundtrip.concretise(v)
    return v


def family():
    out = []
    doms_a = [("Real", -INF, INF), ("NonNegativeReal", 0.0, INF), ("Real", -INF, INF), ("Real", -2.0, INF), ("Real", -INF, 3.5), ("NonNegativeReal", 2.0, 10.0), ("Real", 0.0, INF)]
    names = ["a", "b", "c", "d", "e", "f", "g"]
    n = len(names)
    rows_a = [("r1", [1.0, 2.0, -1.0, 0.0, 0.5, 0.0, 1.0], "LessOrEqual", 5.0),
              ("", [0.0, 1.0, 1.0, -2.5, 0.0, 1.0, 0.0], "GreaterOrEqual", -3.0),
              ("", [1.0, 0.0, 0.0, 0.0, 0.0, 0.0, -1.0], "Equal", 0.0),
              ("", [-1.0, 0.0, 2.0, 0.0, 0.0, 0.0, 0.0], "LessOrEqual", -1e-7),
              ("", [0.0, 0.0, 0.0, 1.0, 1.0, 0.0, 0.0], "Equal", -4.0),
              ("", [0.0, 3.0, 0.0, 0.0, 0.0, 0.0, 0.0], "GreaterOrEqual", 0.0)]
    for opt, off in (("Min", 0.0), ("Max", 2.5), ("Min", -1.0)):
        obj = [1.0, -2.0, 0.5, 0.0, 3.0, 0.0, -1.0]
        out.append(("mixed:%s:%r" % (opt, off), (names, doms_a, opt, obj, off, rows_a)))
    # every domain class alone and next to a free variable on either side
    classes = [("Real", -INF, INF), ("Real", -2.0, INF), ("Real", -INF, 3.5), ("Real", -2.0, 2.0), ("Real", 0.0, INF), ("Real", 0.0, 0.0), ("Real", -INF, 0.0),
               ("NonNegativeReal", 0.0, INF), ("NonNegativeReal", 0.0, 10.0), ("NonNegativeReal", 2.0, INF), ("NonNegativeReal", 2.0, 10.0),
               # bounds that differ from 0 / from each other by less than the crate's comparison tolerance (1e-5) are bounds all the same
               ("NonNegativeReal", 4e-6, INF), ("NonNegativeReal", 4e-6, 10.0), ("NonNegativeReal", 0.0, 4e-6), ("Real", -4e-6, INF), ("Real", -INF, 4e-6), ("Real", -4e-6, 4e-6), ("Real", 1.0, 1.000004)]
    for k, d in enumerate(classes):
        for pos in range(3):
            doms = [("Real", -INF, INF), ("NonNegativeReal", 0.0, INF), ("Real", -INF, INF)]
            doms[pos] = d
            rows = [("", [1.0, 1.0, 1.0], "LessOrEqual", 4.0), ("", [1.0, -1.0, 2.0], "GreaterOrEqual", -2.0)]
            out.append(("domain:%s(%r,%r)@%d" % (d[0], d[1], d[2], pos), (["x", "y", "z"], doms, "Min", [1.0, 2.0, 3.0], 0.0, rows)))
    # relation x right-hand side sign
    for cmp in ("LessOrEqual", "GreaterOrEqual", "Equal"):
        for rhs in (5.0, 0.0, -5.0, -1e-7, 1e-7):
            rows = [("", [1.0, -2.0], cmp, rhs)]
            out.append(("row:%s:%r" % (cmp, rhs), (["x", "y"], [("Real", -INF, INF), ("NonNegativeReal", 0.0, INF)], "Max", [1.0, 1.0], 0.0, rows)))
    # adjacent and many free variables
    for k in (2, 3, 4):
        doms = [("Real", -INF, INF)] * k + [("NonNegativeReal", 0.0, INF)]
        nm = ["v%d" % i for i in range(k)] + ["w"]
        rows = [("", [float(i + 1) for i in range(k)] + [1.0], "LessOrEqual", 10.0), ("", [1.0] * k + [-1.0], "Equal", 1.0)]
        out.append(("free:%d-adjacent" % k, (nm, doms, "Min", [1.0] * (k + 1), 0.0, rows)))
    return out


def decode(std, spec):
    """None when the standard form is the textbook one for the model, else the first difference"""
    names, doms, opt, obj, off, rows = spec
    f = std.fields
    svars = [text(v) for v in f["variables"].items]
    sobj = [float(x) for x in f["objective"].items]
    srows = [([float(x) for x in r.fields["coefficients"].items], float(r.fields["rhs"])) for r in f["constraints"].items]
    if len(set(svars)) != len(svars):
        return "duplicate column names %s" % svars
    free = [n for n, d in zip(names, doms) if d[0] == "Real"]
    # expected rows: the model's, then the bound rows in variable order
    exp_rows = [(dict((n, c) for n, c in zip(names, co) if c != 0.0), cmp, rhs) for _, co, cmp, rhs in rows]
    for n, d in zip(names, doms):
        lo, hi = d[1], d[2]
        dlo = -INF if d[0] == "Real" else 0.0
        if lo != dlo:
            exp_rows.append(({n: 1.0}, "GreaterOrEqual", lo))
        if hi != INF:
            exp_rows.append(({n: 1.0}, "LessOrEqual", hi))
    if len(srows) != len(exp_rows):
        return "%d standard rows for %d model rows + bound rows (%s)" % (len(srows), len(exp_rows), [r for r in exp_rows[len(rows):]])
    if any(len(co) != len(svars) for co, _ in srows) or len(sobj) != len(svars):
        return "row / objective lengths %s, %d differ from the %d columns" % ([len(co) for co, _ in srows], len(sobj), len(svars))
    col = {n: i for i, n in enumerate(svars)}
    # columns: kept variables, $p/$m pairs, slacks
    for n, d in zip(names, doms):
        if d[0] == "Real":
            if n in col:
                return "free variable %s is still a column" % n
            if "$p" + n not in col or "$m" + n not in col:
                return "free variable %s has no $p/$m pair among %s" % (n, svars)
        elif n not in col:
            return "variable %s lost its column" % n
    known = {n for n, d in zip(names, doms) if d[0] != "Real"} | {"$p" + n for n in free} | {"$m" + n for n in free}
    slacks = [v for v in svars if v not in known]
    if any(not (v.startswith("$sl_") or v.startswith("$su_")) for v in slacks):
        return "unexpected columns %s" % [v for v in slacks if not v.startswith(("$sl_", "$su_"))]
    used_slack = set()
    for i, ((a, cmp, b), (co, rhs)) in enumerate(zip(exp_rows, srows)):
        s = -1.0 if b < 0.0 else 1.0
        if rhs < 0.0:
            return "row %d has a negative right-hand side %r" % (i, rhs)
        if rhs != s * b:
            return "row %d: right-hand side %r, expected %r" % (i, rhs, s * b)
        want = {}
        for n, c in a.items():
            if n in free:
                want["$p" + n] = s * c
                want["$m" + n] = -s * c
            else:
                want[n] = s * c
        got = {v: c for v, c in zip(svars, co) if c != 0.0}
        got_slack = {v: c for v, c in got.items() if v in slacks}
        got_vars = {v: c for v, c in got.items() if v not in slacks}
        if got_vars != {v: c for v, c in want.items() if c != 0.0}:
            return "row %d (%s %s %r): columns %s, expected %s" % (i, a, cmp, b, got_vars, want)
        exp_sl = {"LessOrEqual": s * 1.0, "GreaterOrEqual": s * -1.0, "Equal": None}[cmp]
        if exp_sl is None:
            if got_slack:
                return "row %d is an equality but has slack columns %s" % (i, got_slack)
        else:
            if len(got_slack) != 1 or list(got_slack.values())[0] != exp_sl:
                return "row %d (%s): slack columns %s, expected one with coefficient %r" % (i, cmp, got_slack, exp_sl)
            v = list(got_slack)[0]
            if v in used_slack:
                return "slack column %s is used by two rows" % v
            if (cmp == "LessOrEqual") != v.startswith("$sl_"):
                return "row %d (%s) uses %s" % (i, cmp, v)
            used_slack.add(v)
    if set(slacks) != used_slack:
        return "slack columns %s are in no row" % sorted(set(slacks) - used_slack)
    # objective
    flip = f["flip_objective"]
    if flip is not (opt == "Max"):
        return "flip flag %r for %s" % (flip, opt)
    s = -1.0 if opt == "Max" else 1.0
    want = {}
    for n, c in zip(names, obj):
        if n in free:
            want["$p" + n] = s * c
            want["$m" + n] = -s * c
        else:
            want[n] = s * c
    got = {v: c for v, c in zip(svars, sobj) if c != 0.0}
    if got != {v: c for v, c in want.items() if c != 0.0}:
        return "objective %s, expected %s" % (got, {v: c for v, c in want.items() if c != 0.0})
    if float(f["objective_offset"]) != off:
        return "offset %r, expected %r" % (f["objective_offset"], off)
    return None


def check(F, R, Gm):
    RT = roundtrip.RoundTrip(F, Gm)
    if not R.ob("STD-EQUIV", "anchor", F.fn(FN) is not None, "packages/rooc/src/transformers/standardizer.rs", "to_standard_form found"):
        return
    for p in (FN, "transformers::standardizer::normalize_constraint", "transformers::standard_linear_model::EqualityConstraint::new", "utils::remove_many"):
        R.fn(p)
    fam = family()
    R.count("STD-EQUIV.models", len(fam))
    n_ok = 0
    for label, spec in fam:
        names, doms, opt, obj, off, rows = spec
        model = c12rt.make_model(names, doms, opt, obj, off, rows)
        r = RT.I.call_fn(FN, [model])
        where = "packages/rooc/src/transformers/standardizer.rs"
        if is_unknown(r):
            R.ob("STD-EQUIV", label, False, where, "standardizer not evaluable: %r" % (r,))
            continue
        if not (isinstance(r, Var) and r.path.endswith("Result::Ok")):
            R.ob("STD-EQUIV", label, False, where, "a continuous model was refused: %r" % (r,))
            continue
        u = roundtrip.find_unknown(r.args[0])
        if u is not None:
            R.ob("STD-EQUIV", label, False, where, "standardizer not evaluable: %r" % (u,))
            continue
        d = decode(r.args[0], spec)
        n_ok += d is None
        R.ob("STD-EQUIV", label, d is None, where, d or "rows, splits, slacks, objective and offset are the textbook standard form of the model")
    # integer / Boolean models are refused, not converted
    for d in (("Boolean",), ("IntegerRange", 0, 5)):
        model = c12rt.make_model(["x", "y"], [d, ("NonNegativeReal", 0.0, INF)], "Min", [1.0, 1.0], 0.0, [("", [1.0, 1.0], "LessOrEqual", 3.0)])
        r = RT.I.call_fn(FN, [model])
        ok = isinstance(r, Var) and r.path.endswith("Result::Err") and isinstance(r.args[0], Var) and r.args[0].path.endswith("InvalidDomain")
        R.ob("STD-EQUIV", "refuses:%s" % d[0], ok, "packages/rooc/src/transformers/standardizer.rs", "a model with a %s variable must be refused with InvalidDomain: %r" % (d[0], r if not ok else "refused"))
