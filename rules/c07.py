"""C07 Derived variable ranges are sound -- structure of the interval analysis.

Decides: P-IVL (end-point polarity typing of every Bounds constructor), T-BOUNDSOF (forward
enclosure table), T-INVERSE (reverse propagation table), W-REVERSE (piecewise reverse rules read
only the safe end-point), W-NANFREE, W-WRITE (only intersections are stored), D-FREEZE, L-STEPS.
Not decided: the algebra of prefix/suffix sums and float rounding.
"""
from facts import norm, base_ty, walk, strip, sexp
from flow import LocalFlow, pat_binds, free_locals
import table
import c04

BOUNDS = "transformers::bounds::Bounds"
BFILE = "transformers/bounds.rs"
EXP = "parser::model_transformer::model::Exp"
VT = c04.VT


class Typer:
    """L = a lower bound of the quantity the constructed interval is about, U = an upper bound,
    E = exact constant, ? = unknown"""

    def __init__(self, F, f):
        self.F = F
        self.f = f
        self.lf = LocalFlow(f["body"])
        self.params = {n["id"] for p in f.get("params", []) for n in walk(p) if n.get("k") == "PBind"}

    def arm_variant(self, node):
        """variant name of the innermost match arm (over VariableType) containing node"""
        v = None
        for m in walk(self.f["body"]):
            if m.get("k") == "Match":
                for arm in m["arms"]:
                    if any(x is node for x in walk(arm["body"])):
                        for alt in table.pat_alternatives(arm["pat"]):
                            h = table.pat_head(alt)
                            if h[0] == "variant" and h[1].startswith(VT + "::"):
                                v = h[1].rsplit("::", 1)[-1]
        return v

    def coef_sign(self, node, local_id):
        """sign of a scalar local at `node`, from enclosing `if c > 0.0 {..} else {..}` and earlier
        `if c == 0.0 { return }`"""
        sign = None
        for i in walk(self.f["body"]):
            if i.get("k") != "If":
                continue
            c = strip(i["cond"])
            if c.get("k") == "Binary" and free_locals(c["a"]) == {local_id} and strip(c["b"]).get("k") == "Lit" and float(strip(c["b"])["v"]) == 0.0:
                in_then = any(x is node for x in walk(i["then"]))
                in_else = i.get("else") is not None and any(x is node for x in walk(i["else"]))
                if c["op"] == ">":
                    if in_then:
                        sign = "+"
                    elif in_else:
                        sign = "-0"
                elif c["op"] == "<":
                    if in_then:
                        sign = "-"
                    elif in_else:
                        sign = "+0"
        return sign

    def ty(self, e, site, depth=0):
        e = strip(e)
        k = e.get("k")
        if depth > 12:
            return "?"
        if k == "Lit":
            return "E"
        if k == "Cast":
            return self.ty(e["a"], site, depth + 1)
        if k == "Field":
            a = strip(e["a"])
            if e["name"] in ("lower", "upper") and base_ty(self.F.ty(a) or "") == BOUNDS:
                return "L" if e["name"] == "lower" else "U"
            if e["name"] == "tolerance":
                return "T"
            return "E"
        if k == "Path":
            if e.get("res") == "def":
                return "E"
            if e.get("res") == "local":
                defs = self.lf.defs.get(e["id"], [])
                if e["id"] in self.params or not defs:
                    # a pattern binding of an interval end-point?  (`VariableType::X(lower, upper)`)
                    return self.binding_role(e["id"])
                if len(defs) == 1:
                    return self.ty(defs[0], site, depth + 1)
                ts = {self.ty(d, site, depth + 1) for d in defs}
                return ts.pop() if len(ts) == 1 else "?"
            return "?"
        if k == "Unary":
            if e["op"] == "-":
                return {"L": "U", "U": "L", "E": "E", "T": "?"}.get(self.ty(e["a"], site, depth + 1), "?")
            return self.ty(e["a"], site, depth + 1)
        if k == "Binary":
            a, b = self.ty(e["a"], site, depth + 1), self.ty(e["b"], site, depth + 1)
            op = e["op"]
            if op == "+":
                return self.add(a, b)
            if op == "-":
                nb = {"L": "U", "U": "L", "E": "E", "T": "-T"}.get(b, "?")
                return self.add(a, nb)
            if op in ("*", "/"):
                # scalar factor with branch-known sign
                for x, y, ynode in ((a, b, e["b"]), (b, a, e["a"])):
                    if x in ("L", "U") and y == "E":
                        yn = strip(ynode)
                        while yn.get("k") == "Unary" and yn["op"] == "*":
                            yn = strip(yn["a"])
                        s = None
                        if yn.get("k") == "Lit":
                            s = "+" if float(yn["v"]) > 0 else "-"
                        elif yn.get("k") == "Path" and yn.get("res") == "local":
                            s = self.coef_sign(site, yn["id"])
                        if s in ("+", "+0"):
                            return x
                        if s in ("-", "-0"):
                            return "U" if x == "L" else "L"
                        return "?"
                if a == "E" and b == "E":
                    return "E"
                return "?"
            return "?"
        if k == "Call":
            c = norm(e.get("callee") or "")
            if c.endswith("bounds::lower_sum") or c.endswith("bounds::upper_sum"):
                t = self.add(self.ty(e["args"][0], site, depth + 1), self.ty(e["args"][1], site, depth + 1))
                want = "L" if c.endswith("lower_sum") else "U"
                return t if t in (want, "E") else "?"
            return "?"
        if k == "MCall":
            n = e["name"]
            c = norm(e.get("callee") or "")
            if n in ("max", "min") and "f64" in c and len(e["args"]) == 1:
                a, b = self.ty(e["recv"], site, depth + 1), self.ty(e["args"][0], site, depth + 1)
                if a == b and a in ("L", "U", "E"):
                    return a
                # x >= 0 is an axiom of a NonNegativeReal variable: max(L, 0) is still a lower bound
                if n == "max" and {a, b} == {"L", "E"} and self.arm_variant(site) == "NonNegativeReal":
                    lit = strip(e["args"][0]) if b == "E" else strip(e["recv"])
                    if lit.get("k") == "Lit" and float(lit["v"]) == 0.0:
                        return "L"
                return "?"
            if n == "ceil" and not e["args"]:
                return "L" if self.ty(e["recv"], site, depth + 1) == "L" and self.arm_variant(site) == "IntegerRange" else "?"
            if n == "floor" and not e["args"]:
                return "U" if self.ty(e["recv"], site, depth + 1) == "U" and self.arm_variant(site) == "IntegerRange" else "?"
            if n in ("clone", "copied", "to_owned"):
                return self.ty(e["recv"], site, depth + 1)
            return "?"
        return "?"

    def binding_role(self, lid):
        """role of a pattern binding: position 0 / 1 of a VariableType::X(lower, upper) pattern"""
        for n in walk(self.f["body"]):
            if n.get("k") == "PTupleStruct" and norm(n.get("path") or "").startswith(VT + "::") and len(n.get("pats", [])) == 2:
                ids = [[i for i, _ in pat_binds(p)] for p in n["pats"]]
                if lid in ids[0]:
                    return "L"
                if lid in ids[1]:
                    return "U"
        return "E"

    @staticmethod
    def add(a, b):
        if a == "E":
            return b if b in ("L", "U", "E") else "?"
        if b == "E":
            return a if a in ("L", "U") else "?"
        if a == b and a in ("L", "U"):
            return a
        # loosening by a non-negative tolerance
        if (a, b) in (("L", "-T"), ("U", "T")):
            return a
        if (a, b) in (("T", "U"),):
            return "U"
        return "?"



def S(R, rule, key, ok, where="", detail=""):
    """a clause that recognises one spelling of the analysis (an arm calling `add`, a guard written `coefficient == 0.0`):
    it can confirm, but a miss does not tell a defect from a refactoring, so a miss is undecided.  What these clauses are
    about is decided by evaluation: T-IVL-SEM (every form x interval class) and BOUNDS-SOUND (the whole analysis)."""
    return R.ob(rule, key, ok, where, detail, undecided=True)

def p_ivl(F, R):
    n = 0
    for f in F.fn_list:
        if "body" not in f or not f.get("file", "").endswith(BFILE):
            continue
        T = Typer(F, f)
        for c in walk(f["body"]):
            args = None
            if c.get("k") == "Call" and norm(c.get("callee") or "") in (BOUNDS + "::new",):
                args = c["args"]
            elif c.get("k") == "Struct" and norm(c.get("path") or "") in (BOUNDS,) and f["path"] != BOUNDS + "::new":
                fl = {x["name"]: x["e"] for x in c["fields"]}
                if {"lower", "upper"} <= set(fl):
                    args = [fl["lower"], fl["upper"]]
            if args is None or len(args) != 2:
                continue
            n += 1
            R.fn(f["path"])
            tl, tu = T.ty(args[0], c), T.ty(args[1], c)
            key = "%s:new(%s,%s)" % (f["path"].replace("transformers::bounds::", ""), sexp(args[0]).replace(" ", ""), sexp(args[1]).replace(" ", ""))
            R.ob("P-IVL", key[:170], tl in ("L", "E") and tu in ("U", "E"), F.loc(f, c),
                 "interval built as [%s, %s]: the lower end-point types as %s and the upper as %s (need L|E and U|E; `?` = the typer cannot show it is a valid bound)" % (sexp(args[0]), sexp(args[1]), tl, tu), undecided=("?" in (tl, tu)))
    R.count("P-IVL.constructors", n)


def arm_of(F, f, variant, enum=EXP):
    """arms of the top-level match over `enum` in f keyed by variant (merged or-patterns)"""
    out = {}
    for m in walk(f["body"]):
        if m.get("k") == "Match" and table.scrut_type(F, m) == enum:
            for arm in m["arms"]:
                for alt in table.pat_alternatives(arm["pat"]):
                    h = table.pat_head(alt)
                    if h[0] == "variant":
                        out.setdefault(h[1].rsplit("::", 1)[-1], (arm, alt))
            return out, m
    return out, None


def t_boundsof(F, R):
    f = F.fn("transformers::bounds::BoundsAnalyzer::bounds_of")
    if f is None:
        S(R, "T-BOUNDSOF", "anchor", False, "", "bounds_of not found")
        return
    R.fn(f["path"])
    arms, m = arm_of(F, f, None)
    where = F.loc(f)

    def calls(node):
        return [x["name"] for x in walk(node) if x.get("k") == "MCall"] + [norm(x.get("callee") or "").rsplit("::", 1)[-1] for x in walk(node) if x.get("k") == "Call"]

    want_simple = {"Number": "singleton", "Abs": "abs"}
    for v, op in want_simple.items():
        a = arms.get(v)
        S(R, "T-BOUNDSOF", v, a is not None and op in calls(a[0]["body"]), where, "Exp::%s must be enclosed with `%s` (calls: %s)" % (v, op, calls(a[0]["body"]) if a else None))
    a = arms.get("Variable")
    S(R, "T-BOUNDSOF", "Variable", a is not None and "UNBOUNDED" in sexp(a[0]["body"]) and "variable_bounds" in sexp(a[0]["body"]), where, "an unknown variable must be unbounded")
    for v, fn_ in (("Min", "min"), ("Max", "max")):
        a = arms.get(v)
        ok = False
        detail = "no fold found"
        if a:
            news = [x for x in walk(a[0]["body"]) if x.get("k") == "Call" and norm(x.get("callee") or "") == BOUNDS + "::new"]
            if len(news) == 1:
                a0, a1 = strip(news[0]["args"][0]), strip(news[0]["args"][1])
                ok = a0.get("k") == "MCall" and a0["name"] == fn_ and a1.get("k") == "MCall" and a1["name"] == fn_ and "lower" in sexp(a0) and "upper" in sexp(a1) and "upper" not in sexp(a0) and "lower" not in sexp(a1)
                detail = sexp(news[0])
            ok = ok and any(x.get("k") == "Path" and "UNBOUNDED" in (x.get("path") or "") for x in walk(a[0]["body"]))
        S(R, "T-BOUNDSOF", v, ok, where, "Exp::%s must fold both end-points with `%s` (%s is monotone in each operand) and be unbounded when empty: %s" % (v, fn_, fn_, detail))
    for v in ("And", "Or", "Not", "Xor", "Implies", "Iff"):
        a = arms.get(v)
        ok = a is not None and sexp(strip(a[0]["body"])).replace("transformers::bounds::", "") in ("Bounds::new(0.0, 1.0)",)
        S(R, "T-BOUNDSOF", v, ok, where, "logic form %s has values in [0, 1]: %s" % (v, sexp(a[0]["body"]) if a else None))
    # arithmetic
    b = arms.get("BinOp")
    if b:
        inner = [x for x in walk(b[0]["body"]) if x.get("k") == "Match" and table.scrut_type(F, x) == "math::operators::BinOp"]
        if inner:
            am = c04.arm_map(F, inner[0], "math::operators::BinOp")
            for v, op in (("Add", "add"), ("Sub", "sub")):
                body = am[v][0]["body"]
                t = strip(body)
                ok = t.get("k") == "MCall" and t["name"] == op and "lhs" in sexp(t["recv"]) and "rhs" in sexp(t["args"][0])
                S(R, "T-BOUNDSOF", "BinOp::" + v, ok, where, "%s must be enclosed by bounds_of(lhs).%s(bounds_of(rhs)): %s" % (v, op, sexp(t)))
            # Mul: only by a literal, with scale; anything else unbounded
            mm = [x for x in walk(am["Mul"][0]["body"]) if x.get("k") == "Match"]
            ok = False
            if mm:
                bodies = [sexp(strip(a_["body"])) for a_ in mm[0]["arms"]]
                ok = sum(1 for t in bodies if ".scale(" in t) == 2 and all((".scale(" in t) or t.endswith("UNBOUNDED") for t in bodies)
                pats = [sexp(a_["pat"]) for a_ in mm[0]["arms"] if ".scale(" in sexp(strip(a_["body"]))]
                ok = ok and all("Exp::Number" in p for p in pats)
            S(R, "T-BOUNDSOF", "BinOp::Mul", ok, where, "a product is enclosed only when one factor is a literal (scale), otherwise it must be unbounded")
            dm = [x for x in walk(am["Div"][0]["body"]) if x.get("k") == "Match"]
            ok = False
            if dm:
                good = [a_ for a_ in dm[0]["arms"] if ".div_by(" in sexp(a_["body"])]
                ok = len(good) == 1 and "Exp::Number" in sexp(good[0]["pat"]) and good[0].get("guard") is not None and "!= 0.0" in sexp(good[0]["guard"]) and all((a_ is good[0]) or sexp(strip(a_["body"])).endswith("UNBOUNDED") for a_ in dm[0]["arms"])
            S(R, "T-BOUNDSOF", "BinOp::Div", ok, where, "a quotient is enclosed only for a non-zero literal divisor (div_by), otherwise it must be unbounded")
            for v in ("And", "Or", "Xor", "Implies", "Iff"):
                t = sexp(strip(am[v][0]["body"])).replace("transformers::bounds::", "")
                S(R, "T-BOUNDSOF", "BinOp::" + v, t == "Bounds::new(0.0, 1.0)", where, "logic operator encloses to [0,1]: %s" % t)
    u = arms.get("UnOp")
    if u:
        um = [x for x in walk(u[0]["body"]) if x.get("k") == "Match"]
        if um:
            am = c04.arm_map(F, um[0], "math::operators::UnOp")
            t = strip(am["Neg"][0]["body"])
            S(R, "T-BOUNDSOF", "UnOp::Neg", t.get("k") == "MCall" and t["name"] == "neg", where, "negation encloses with neg(): %s" % sexp(t))
            S(R, "T-BOUNDSOF", "UnOp::Not", sexp(strip(am["Not"][0]["body"])).endswith("new(0.0, 1.0)"), where, "not encloses to [0,1]")


def t_inverse(F, R):
    f = F.fn("transformers::bounds::BoundsAnalyzer::tighten_expression")
    if f is None:
        S(R, "T-INVERSE", "anchor", False, "", "tighten_expression not found")
        return
    R.fn(f["path"])
    where = F.loc(f)
    arms, m = arm_of(F, f, None)
    rec = lambda node: [x for x in walk(node) if x.get("k") == "MCall" and x["name"] == "tighten_expression"]
    b = arms.get("BinOp")
    inner = [x for x in walk(b[0]["body"]) if x.get("k") == "Match" and table.scrut_type(F, x) == "math::operators::BinOp"] if b else []
    if not inner:
        S(R, "T-INVERSE", "BinOp", False, where, "no operator table")
        return
    am = c04.arm_map(F, inner[0], "math::operators::BinOp")

    def reqs(v):
        return {sexp(c["args"][0]): sexp(c["args"][1]) for c in rec(am[v][0]["body"])}

    r = reqs("Add")
    S(R, "T-INVERSE", "Add", r == {"lhs": "required.sub(rhs_bounds)", "rhs": "required.sub(lhs_bounds)"}, where, "x + y in R  =>  x in R - [y], y in R - [x]; code: %s" % r)
    r = reqs("Sub")
    S(R, "T-INVERSE", "Sub", r == {"lhs": "required.add(rhs_bounds)", "rhs": "lhs_bounds.sub(required)"}, where, "x - y in R  =>  x in R + [y], y in [x] - R; code: %s" % r)
    # bounds used are those of the *other* operand, read before tightening
    for v in ("Add", "Sub"):
        lets = {sexp(s["pat"]): sexp(s["init"]) for s in walk(am[v][0]["body"]) if s.get("k") == "Let" and s.get("init") is not None}
        S(R, "T-INVERSE", v + ":operand-bounds", lets.get("lhs_bounds") == "self.bounds_of(lhs)" and lets.get("rhs_bounds") == "self.bounds_of(rhs)", where, "operand enclosures: %s" % lets)
    mul = rec(am["Mul"][0]["body"])
    ok = len(mul) == 2 and all(".div_by(*coefficient)" in sexp(c["args"][1]) and sexp(c["args"][1]).startswith("required") for c in mul)
    conds = [sexp(i["cond"]) for i in walk(am["Mul"][0]["body"]) if i.get("k") == "If"]
    ok = ok and sum(1 for c in conds if "!= 0.0" in c) >= 2
    S(R, "T-INVERSE", "Mul", ok, where, "c*x in R => x in R / c, only for a literal c != 0; conditions %s" % conds)
    div = rec(am["Div"][0]["body"])
    conds = [sexp(i["cond"]) for i in walk(am["Div"][0]["body"]) if i.get("k") == "If"]
    ok = len(div) == 1 and sexp(div[0]["args"][1]) == "required.scale(*divisor)" and any("!= 0.0" in c for c in conds)
    S(R, "T-INVERSE", "Div", ok, where, "x/d in R => x in R * d, only for a literal d != 0")
    for v in ("And", "Or", "Xor", "Implies", "Iff"):
        S(R, "T-INVERSE", "logic-op:" + v, not rec(am[v][0]["body"]), where, "nothing may be propagated through a logic operator")
    u = arms.get("UnOp")
    um = [x for x in walk(u[0]["body"]) if x.get("k") == "Match"] if u else []
    if um:
        amu = c04.arm_map(F, um[0], "math::operators::UnOp")
        c = rec(amu["Neg"][0]["body"])
        S(R, "T-INVERSE", "Neg", len(c) == 1 and sexp(c[0]["args"][1]) == "required.neg()", where, "-x in R => x in -R")
        S(R, "T-INVERSE", "Not", not rec(amu["Not"][0]["body"]), where, "nothing through not")
    # ---- W-REVERSE -------------------------------------------------------------------
    for v, safe, unsafe in (("Abs", "upper", "lower"), ("Max", "upper", "lower"), ("Min", "lower", "upper")):
        a = arms.get(v)
        if not a:
            S(R, "W-REVERSE", v, False, where, "no arm")
            continue
        reads = {x["name"] for x in walk(a[0]["body"]) if x.get("k") == "Field" and sexp(strip(x["a"])) == "required"}
        guard = [sexp(i["cond"]) for i in walk(a[0]["body"]) if i.get("k") == "If"]
        S(R, "W-REVERSE", v, reads == {safe} and any("required.%s.is_finite()" % safe in g for g in guard), F.loc(f, a[0]["body"]),
             "the reverse rule through %s may use only required.%s (the other direction is a disjunction and tightens nothing); it reads %s under %s" % (v.lower(), safe, sorted(reads), guard))
    for v in ("And", "Or", "Not", "Xor", "Implies", "Iff"):
        a = arms.get(v)
        S(R, "W-REVERSE", v, a is not None and not rec(a[0]["body"]), where, "logic forms tighten nothing")
    # every recursion first intersects with the current enclosure
    first = [s for s in walk(f["body"]) if s.get("k") == "Let" and s.get("init") is not None and "intersection(required" in sexp(s["init"])]
    S(R, "T-INVERSE", "intersect-first", len(first) == 1 and first[0].get("els") is not None and "detected_infeasible = true" in sexp(first[0]["els"]), where, "the requirement is intersected with the current enclosure; an empty intersection records infeasibility")


def w_rules(F, R):
    # W-NANFREE
    for name in ("lower_sum", "upper_sum"):
        f = F.fn("transformers::bounds::" + name)
        ok = False
        if f is not None:
            R.fn(f["path"])
            t = sexp(f["body"])
            ok = "is_nan()" in t and ("NEG_INFINITY" in t if name == "lower_sum" else ("INFINITY" in t and "NEG_INFINITY" not in t))
        S(R, "W-NANFREE", name, ok, F.loc(f) if f else "", "%s must replace NaN (inf + -inf) by the conservative infinity" % name)
    raw = []
    for f in F.fn_list:
        if "body" not in f or not f.get("file", "").endswith(BFILE) or f["path"].endswith("lower_sum") or f["path"].endswith("upper_sum"):
            continue
        for x in walk(f["body"]):
            if x.get("k") == "Binary" and x["op"] in ("+",):
                for side in (x["a"], x["b"]):
                    s = strip(side)
                    if s.get("k") == "Field" and s["name"] in ("lower", "upper") and base_ty(F.ty(strip(s["a"])) or "") == BOUNDS:
                        other = strip(x["b"] if side is x["a"] else x["a"])
                        if not (other.get("k") == "Field" and other["name"] == "tolerance"):
                            raw.append((f["path"], sexp(x)))
    # W-SNAP: a propagated bound of an integer variable is rounded after being loosened by the analyzer's own tolerance
    # (the same field every propagation comparison uses): propagated end-points carry float error of the size that
    # tolerance absorbs elsewhere; rounding with a smaller slack moves the bound past a feasible integer
    fa = F.fn(ANALYZER + "::apply_to_domain") if "ANALYZER" in globals() else None
    if fa is None:
        fa = next((g for g in F.fn_list if g["path"].endswith("BoundsAnalyzer::apply_to_domain")), None)
    if fa is not None and "body" in fa:
        snaps = []
        for x in walk(fa["body"]):
            if x.get("k") == "MCall" and x["name"] in ("ceil", "floor") and not x["args"]:
                r = strip(x["recv"])
                want_op, want_end = ("-", "lower") if x["name"] == "ceil" else ("+", "upper")
                ok = r.get("k") == "Binary" and r["op"] == want_op and strip(r["a"]).get("k") == "Field" and strip(r["a"])["name"] == want_end and sexp(strip(r["b"])) == "self.tolerance"
                snaps.append((x["name"], sexp(r), ok))
        S(R, "W-SNAP", "apply_to_domain:integer-rounding", len(snaps) >= 2 and all(o for _, _, o in snaps), F.loc(fa), "integer bounds are rounded as (lower - self.tolerance).ceil() / (upper + self.tolerance).floor(): %s" % [(n, t) for n, t, _ in snaps])
    S(R, "W-NANFREE", "raw-sums", not raw, "packages/rooc/src/transformers/bounds.rs", "raw `+` between interval end-points outside lower_sum/upper_sum (inf + -inf = NaN): %s" % raw)
    f = F.fn(BOUNDS + "::scale")
    if f is not None:
        R.fn(f["path"])
        first = strip(f["body"]).get("stmts", [{}])
        t = sexp(first[0]) if first else ""
        S(R, "W-NANFREE", "scale:zero-first", "coefficient == 0.0" in t and "return" in t, F.loc(f), "scale must return before multiplying when the factor is zero (0 * inf = NaN): first statement `%s`" % t[:100])
    f = F.fn(BOUNDS + "::div_by")
    if f is not None:
        t = sexp(f["body"])
        S(R, "W-NANFREE", "div_by:zero", "divisor == 0.0" in t and "UNBOUNDED" in t, F.loc(f), "division by zero must give the unbounded interval")
    # W-WRITE: variable_bounds is only written with an intersection (tighten_variable) or a declared type
    writers = {}
    for f in F.fn_list:
        if "body" not in f or not f.get("file", "").endswith(BFILE):
            continue
        for x in walk(f["body"]):
            if x.get("k") == "MCall" and x["name"] in ("insert", "entry", "get_mut", "extend") and "variable_bounds" in sexp(strip(x["recv"])):
                writers.setdefault(f["path"].rsplit("::", 1)[-1], []).append(sexp(x))
    S(R, "W-WRITE", "writers", set(writers) == {"insert_variable", "tighten_variable"}, "packages/rooc/src/transformers/bounds.rs", "writers of variable_bounds: %s" % sorted(writers))
    f = F.fn("transformers::bounds::BoundsAnalyzer::tighten_variable")
    if f is not None:
        R.fn(f["path"])
        lf = LocalFlow(f["body"])
        ins = [x for x in walk(f["body"]) if x.get("k") == "MCall" and x["name"] == "insert"]
        ok = False
        if len(ins) == 1:
            v = strip(ins[0]["args"][1])
            defs = [sexp(d) for d in lf.defs.get(v.get("id"), [])]
            ok = any("current.intersection(candidate" in d for d in defs)
        S(R, "W-WRITE", "tighten_variable:stores-intersection", ok, F.loc(f), "a stored range must be the intersection of the current range with the candidate (never the candidate alone)")
        els = [s_ for s_ in walk(f["body"]) if s_.get("k") == "Let" and s_.get("els") is not None and "intersection" in sexp(s_.get("init"))]
        t = sexp(els[0]["els"]) if els else ""
        S(R, "W-WRITE", "tighten_variable:empty->infeasible", "detected_infeasible = true" in t and "return false" in t, F.loc(f), "an empty intersection records infeasibility and leaves the stored range untouched")
    # D-FREEZE / L-STEPS
    f = F.fn("transformers::bounds::BoundsAnalyzer::propagate_affine_constraints")
    if f is not None:
        R.fn(f["path"])
        loops = [x for x in walk(f["body"]) if x.get("k") == "While"]
        ok_steps = ok_freeze = False
        for lp in loops:
            t = sexp(lp["body"])
            ok_steps = "(steps >= max_steps)" in t and "break" in t and "steps += 1" in t
            brk = [i for i in walk(lp["body"]) if i.get("k") == "If" and "detected_infeasible" in sexp(i["cond"]) and any(x.get("k") == "Break" for x in walk(i["then"]))]
            ok_freeze = bool(brk)
        S(R, "L-STEPS", "work-list", ok_steps, F.loc(f), "the work-list loop must count steps and stop at max_steps")
        S(R, "D-FREEZE", "propagate", ok_freeze, F.loc(f), "propagation must stop as soon as a contradiction was detected")
    f = F.fn("transformers::bounds::BoundsAnalyzer::tighten_expression")
    if f is not None:
        first = strip(f["body"]).get("stmts", [{}])[0]
        S(R, "D-FREEZE", "tighten_expression", "detected_infeasible" in sexp(first) and "return" in sexp(first), F.loc(f), "tighten_expression must do nothing once infeasibility was detected")
    f = F.fn("transformers::bounds::BoundsAnalyzer::tighten_affine_form")
    if f is not None:
        R.fn(f["path"])
        brk = [i for i in walk(f["body"]) if i.get("k") == "If" and "detected_infeasible" in sexp(i["cond"]) and any(x.get("k") == "Break" for x in walk(i["then"]))]
        S(R, "D-FREEZE", "tighten_affine_form", bool(brk), F.loc(f), "affine tightening must stop on a detected contradiction")
        t = sexp(f["body"])
        S(R, "T-INVERSE", "affine:candidate", "required.sub(others).div_by(*coefficient)" in t and "prefixes[index].add(suffixes[(index + 1)])" in t, F.loc(f), "a_i x_i in R - sum(others) => x_i in (R - [others]) / a_i")
    # required_bounds table
    f = F.fn("transformers::bounds::required_bounds")
    if f is not None:
        R.fn(f["path"])
        ms = [x for x in walk(f["body"]) if x.get("k") == "Match"]
        if ms:
            am = c04.arm_map(F, ms[0], c04.CMP)
            want = {"LessOrEqual": "new(core::f64::NEG_INFINITY, 0.0)", "Less": "new(core::f64::NEG_INFINITY, 0.0)", "GreaterOrEqual": "new(0.0, core::f64::INFINITY)", "Greater": "new(0.0, core::f64::INFINITY)", "Equal": "singleton(0.0)"}
            for v, w in want.items():
                t = sexp(strip(am[v][0]["body"])).replace("<impl f64>::", "").replace("transformers::bounds::", "").replace("Bounds::", "")
                S(R, "T-INVERSE", "required:" + v, t == w, F.loc(f), "lhs - rhs %s 0 requires the difference in %s; code: %s" % (v, w, t))


def w_exact(F, R):
    """W-EXACT: a term of an affine row may be discarded only when its coefficient is exactly 0: the
    range of the variable is not known at that point, so a tiny coefficient times a wide range still
    moves the row (tolerances are for comparing bounds, not for dropping terms)"""
    n = 0
    for f in F.fn_list:
        if "body" not in f or not f["path"].startswith("transformers::bounds::AffineForm::"):
            continue
        for i in walk(f["body"]):
            if i.get("k") == "If" and any(x.get("k") == "MCall" and x["name"] in ("shift_remove", "swap_remove", "remove") for x in walk(i["then"])):
                n += 1
                c = strip(i["cond"])
                exact = c.get("k") == "Binary" and c["op"] == "==" and sexp(strip(c["b"])) == "0.0" and strip(c["a"]).get("k") in ("Path", "Unary")
                R.fn(f["path"])
                S(R, "W-EXACT", "%s:remove-if" % f["path"].rsplit("::", 1)[-1], exact, F.loc(f, i), "a coefficient is removed under `%s`; only an exact `== 0.0` test is sound here" % sexp(c))
            if i.get("k") == "MCall" and i["name"] == "retain" and i["args"] and strip(i["args"][0]).get("k") == "Closure":
                n += 1
                body = strip(strip(i["args"][0])["body"])
                last = body
                if body.get("k") == "Block":
                    last = strip(body.get("e") or {})
                exact = last.get("k") == "Binary" and last["op"] == "!=" and sexp(strip(last["b"])) == "0.0"
                R.fn(f["path"])
                S(R, "W-EXACT", "%s:retain" % f["path"].rsplit("::", 1)[-1], exact, F.loc(f, i), "coefficients are kept under `%s`; only an exact `!= 0.0` test is sound here" % sexp(last))
    S(R, "W-EXACT", "sites", n >= 2, "packages/rooc/src/transformers/bounds.rs", "expected the coefficient-removal sites of AffineForm::merge and ::scale, found %d" % n)


def check(F, R, tier="quick"):
    w_exact(F, R)
    p_ivl(F, R)
    t_boundsof(F, R)
    t_ivl_sem(F, R)
    bounds_sound(F, R, tier)
    t_inverse(F, R)
    w_rules(F, R)


# ---- T-IVL-SEM ------------------------------------------------------------------------------------------
# BoundsAnalyzer::bounds_of (with Bounds::{abs, add, sub, scale, div_by, ...}) is evaluated from its typed HIR on expression
# forms over variables with every class of interval (sign-known, sign-unknown, point, half-bounded, unbounded); the
# interval it returns must be well formed (no NaN, lower <= upper) and must contain the value of the form at every
# operand point of a rational grid inside the operand intervals (clipped to a finite window when an end is infinite).

def t_ivl_sem(F, R):
    import itertools as it
    from fractions import Fraction as Fr
    import c10
    from interp import Interp, Var as V, Rope as Rp, ListV as LV, is_unknown
    fn = "transformers::bounds::BoundsAnalyzer::bounds_of"
    if not R.ob("T-IVL-SEM", "anchor", F.fn(fn) is not None, "packages/rooc/src/transformers/bounds.rs", "bounds_of found"):
        return
    R.fn(fn)
    I = Interp(F, max_depth=200)
    E = c10.EXP
    INF = float("inf")

    def analyzer(b):
        return V("transformers::bounds::BoundsAnalyzer", fields={"variable_bounds": LV([(n, V(BOUNDS, fields={"lower": lo, "upper": hi})) for n, (lo, hi) in b.items()]), "tolerance": 1e-9, "reached_iteration_limit": False, "detected_infeasible": False})
    var = lambda n: V(E + "::Variable", [Rp([n])])
    num = lambda c: V(E + "::Number", [float(c)])
    bop = lambda o, a, b: V(E + "::BinOp", [V("math::operators::BinOp::" + o), a, b])
    neg = lambda a: V(E + "::UnOp", [V("math::operators::UnOp::Neg"), a])
    ab = lambda a: V(E + "::Abs", [a])
    mx = lambda *a: V(E + "::Max", [LV(list(a))])
    mn = lambda *a: V(E + "::Min", [LV(list(a))])
    x, y = var("x"), var("y")
    forms = [("x", x, lambda a, b: a), ("-x", neg(x), lambda a, b: -a), ("abs(x)", ab(x), lambda a, b: abs(a)), ("x+y", bop("Add", x, y), lambda a, b: a + b), ("x-y", bop("Sub", x, y), lambda a, b: a - b),
             ("2*x", bop("Mul", num(2), x), lambda a, b: 2 * a), ("x*-2", bop("Mul", x, num(-2)), lambda a, b: -2 * a), ("0*x", bop("Mul", num(0), x), lambda a, b: 0 * a), ("0.5*x", bop("Mul", num(0.5), x), lambda a, b: a / 2),
             ("x/2", bop("Div", x, num(2)), lambda a, b: a / 2), ("x/-4", bop("Div", x, num(-4)), lambda a, b: a / -4), ("max(x,y)", mx(x, y), lambda a, b: max(a, b)), ("min(x,y)", mn(x, y), lambda a, b: min(a, b)),
             ("max(x,y,1)", mx(x, y, num(1)), lambda a, b: max(a, b, 1)), ("abs(x-y)", ab(bop("Sub", x, y)), lambda a, b: abs(a - b)), ("max(abs(x),y)", mx(ab(x), y), lambda a, b: max(abs(a), b)),
             ("3-min(x,y)", bop("Sub", num(3), mn(x, y)), lambda a, b: 3 - min(a, b)), ("-2*max(x,y)+y", bop("Add", bop("Mul", num(-2), mx(x, y)), y), lambda a, b: -2 * max(a, b) + b),
             ("abs(abs(x)-2)", ab(bop("Sub", ab(x), num(2))), lambda a, b: abs(abs(a) - 2)), ("-(x/-4)", neg(bop("Div", x, num(-4))), lambda a, b: a / 4), ("min(x,-y)", mn(x, neg(y)), lambda a, b: min(a, -b)),
             # three and more operands, the deciding one in the middle
             ("min(x,y,x+1)", mn(x, y, bop("Add", x, num(1))), lambda a, b: min(a, b, a + 1)), ("min(2,y,x)", mn(num(2), y, x), lambda a, b: min(2, b, a)), ("max(x,y,x-1)", mx(x, y, bop("Sub", x, num(1))), lambda a, b: max(a, b, a - 1)),
             ("max(-1,y,x)", mx(num(-1), y, x), lambda a, b: max(-1, b, a)), ("min(x,y,-y,x)", mn(x, y, neg(y), x), lambda a, b: min(a, b, -b, a)), ("max(x,-y,y,x)", mx(x, neg(y), y, x), lambda a, b: max(a, -b, b, a)),
             ("min(x,max(y,x,-3),4)", mn(x, mx(y, x, num(-3)), num(4)), lambda a, b: min(a, max(b, a, -3), 4))]
    classes = [(-3.0, 2.0), (0.0, 5.0), (-5.0, 0.0), (-3.0, -1.0), (2.0, 4.0), (0.0, 0.0), (-INF, 5.0), (-3.0, INF), (-INF, INF), (-0.5, 0.25)]

    def grid(lo, hi):
        lo2, hi2 = max(lo, -6.0), min(hi, 7.0)
        pts = {Fr(lo2), Fr(hi2), (Fr(lo2) + Fr(hi2)) / 2, Fr(lo2) + (Fr(hi2) - Fr(lo2)) / 3}
        for z in (Fr(0), Fr(1, 2), Fr(-1, 2)):
            if lo <= z <= hi:
                pts.add(z)
        return sorted(pts)
    n_cells = 0
    for label, e, f in forms:
        uses_y = "y" in label
        bad = None
        for bx in classes:
            for by in (classes if uses_y else [(0.0, 0.0)]):
                r = I.call_fn(fn, [analyzer({"x": bx, "y": by}), e])
                n_cells += 1
                if is_unknown(r) or not isinstance(r, V) or "lower" not in r.fields:
                    bad = "x in %s, y in %s: not evaluable: %r" % (bx, by, r)
                    break
                lo, hi = r.fields["lower"], r.fields["upper"]
                if lo != lo or hi != hi or lo > hi:
                    bad = "x in %s, y in %s: ill-formed interval [%r, %r]" % (bx, by, lo, hi)
                    break
                for a, b in it.product(grid(*bx), grid(*by)):
                    v = f(a, b)
                    if (lo != -INF and v < Fr(lo)) or (hi != INF and v > Fr(hi)):
                        bad = "x in %s, y in %s: the value %s at x=%s, y=%s is outside [%r, %r]" % (bx, by, v, a, b, lo, hi)
                        break
                if bad:
                    break
            if bad:
                break
        R.ob("T-IVL-SEM", label, bad is None, "packages/rooc/src/transformers/bounds.rs", bad or "sound and well formed on every interval class")
    R.count("T-IVL-SEM.cells", n_cells)


# ---- BOUNDS-SOUND ---------------------------------------------------------------------------------------
# The whole analysis (BoundsAnalyzer::analyze: affine forms, the propagation queue, forward and reverse rules, tighten_variable,
# the infeasibility flag) and apply_to_domain are evaluated from their typed HIR on a family of small models: every pair of
# constraint templates (affine with positive / negative / fractional coefficients, abs, min, max, nested and scaled forms, each
# relation) over two variables, under several declared domains.  Soundness is decided on a rational grid of the declared box:
# every grid point that satisfies both constraints lies inside the derived range of each variable (and inside the domain
# written back by apply_to_domain, integers included), and the infeasibility flag is only raised when no grid point is
# feasible.  Tightness is not required.

def bounds_sound(F, R, tier="quick"):
    import itertools as it
    from fractions import Fraction as Fr
    import c10
    import c12rt
    from interp import Interp, Var as V, Rope as Rp, ListV as LV, is_unknown
    fn = "transformers::bounds::BoundsAnalyzer::analyze"
    ap = "transformers::bounds::BoundsAnalyzer::apply_to_domain"
    if not R.ob("BOUNDS-SOUND", "anchor", F.fn(fn) is not None and F.fn(ap) is not None, "packages/rooc/src/transformers/bounds.rs", "analyze and apply_to_domain found"):
        return
    for p in (fn, ap, "transformers::bounds::BoundsAnalyzer::propagate_affine_constraints", "transformers::bounds::BoundsAnalyzer::tighten_expression", "transformers::bounds::BoundsAnalyzer::tighten_affine_form", "transformers::bounds::BoundsAnalyzer::tighten_variable", "transformers::bounds::AffineForm::from_exp"):
        R.fn(p)
    I = Interp(F, max_depth=400)
    E = c10.EXP
    VT = "math::math_enums::VariableType"
    INF = float("inf")
    var = lambda n: V(E + "::Variable", [Rp([n])])
    num = lambda c: V(E + "::Number", [float(c)])
    bop = lambda o, a, b: V(E + "::BinOp", [V("math::operators::BinOp::" + o), a, b])
    neg = lambda a: V(E + "::UnOp", [V("math::operators::UnOp::Neg"), a])
    ab = lambda a: V(E + "::Abs", [a])
    mx = lambda *a: V(E + "::Max", [LV(list(a))])
    mn = lambda *a: V(E + "::Min", [LV(list(a))])
    x, y = var("x"), var("y")

    def value(e, env):
        k = e.path.rsplit("::", 1)[-1]
        if k == "Number":
            return Fr(e.args[0])
        if k == "Variable":
            return env[e.args[0].text()]
        if k == "Abs":
            return abs(value(e.args[0], env))
        if k in ("Min", "Max"):
            vs = [value(z, env) for z in e.args[0].items]
            return min(vs) if k == "Min" else max(vs)
        if k == "UnOp":
            return -value(e.args[1], env)
        if k == "BinOp":
            o = e.args[0].path.rsplit("::", 1)[-1]
            a, b = value(e.args[1], env), value(e.args[2], env)
            return {"Add": a + b, "Sub": a - b, "Mul": a * b}[o] if o != "Div" else a / b
        raise KeyError(k)
    exprs = [("x+y", bop("Add", x, y)), ("2x-y", bop("Sub", bop("Mul", num(2), x), y)), ("-0.5x+y", bop("Add", bop("Mul", num(-0.5), x), y)), ("x", x), ("y/-2", bop("Div", y, num(-2))),
             ("abs(x)", ab(x)), ("abs(x-y)", ab(bop("Sub", x, y))), ("max(x,y)", mx(x, y)), ("min(x,2y)", mn(x, bop("Mul", num(2), y))), ("-(x+3)", neg(bop("Add", x, num(3)))),
             ("abs(x)+y", bop("Add", ab(x), y)), ("-2*max(x,y)", bop("Mul", num(-2), mx(x, y))), ("3-min(x,y)", bop("Sub", num(3), mn(x, y))), ("max(abs(x),y)", mx(ab(x), y)), ("x-(2-y)", bop("Sub", x, bop("Sub", num(2), y))),
             ("(x+y)/2", bop("Div", bop("Add", x, y), num(2))), ("-x", neg(x)), ("abs(y)-x", bop("Sub", ab(y), x)),
             # quotients and products by a constant below and above a piecewise form: the reverse rules undo them
             ("max(x/4,y)", mx(bop("Div", x, num(4)), y)), ("abs(x)/4", bop("Div", ab(x), num(4))), ("min(x/-3,y)", mn(bop("Div", x, num(-3)), y)), ("abs(3x-y)", ab(bop("Sub", bop("Mul", num(3), x), y))), ("max(x,y)/0.5", bop("Div", mx(x, y), num(0.5)))]
    rels = [("LessOrEqual", lambda a, b: a <= b), ("GreaterOrEqual", lambda a, b: a >= b), ("Equal", lambda a, b: a == b)]
    rhss = [1.0, -2.0, 0.0, 2.5]
    cons = []
    for (el, e), (rl, rf), c in it.product(exprs, rels, rhss):
        if rl == "Equal" and c not in (1.0, 0.0):
            continue
        cons.append(("%s %s %s" % (el, {"LessOrEqual": "<=", "GreaterOrEqual": ">=", "Equal": "="}[rl], c), e, rl, rf, c))
    domains = [("real", ("Real", -4.0, 4.0), ("Real", -4.0, 4.0)), ("half", ("Real", -INF, 3.0), ("NonNegativeReal", 0.0, INF)), ("int", ("IntegerRange", -3, 3), ("Real", -4.0, 4.0)), ("free", ("Real", -INF, INF), ("Real", -INF, INF))]
    con = lambda e, rl, c: V("parser::model_transformer::model::Constraint", fields={"name": "", "lhs": e, "constraint_type": V("math::math_enums::Comparison::" + rl), "rhs": num(c), "is_logic_assertion": False})

    def grid(d):
        lo, hi = (d[1], d[2]) if d[0] != "Boolean" else (0, 1)
        lo2, hi2 = max(lo, -5), min(hi, 5)
        if d[0] == "IntegerRange":
            return [Fr(i) for i in range(int(lo2), int(hi2) + 1)]
        pts = []
        z = Fr(int(lo2 * 2), 2)
        while z <= hi2:
            if z >= lo:
                pts.append(z)
            z += Fr(1, 2)
        pts += [Fr(lo2) + Fr(1, 3)] if Fr(lo2) + Fr(1, 3) <= hi2 else []
        return pts
    pairs = list(it.combinations(range(len(cons)), 2))
    pairs = pairs[::7] if tier == "thorough" else pairs[::160]
    pairs = [(i, i) for i in range(len(cons))] + pairs
    bad = {}
    n_models = 0
    tol = Fr(1, 10 ** 6)
    for dl, dx, dy in domains:
        gx, gy = grid(dx), grid(dy)
        pts = list(it.product(gx, gy))
        # truth table of every constraint on the grid of this declared box
        truth = []
        for c in cons:
            truth.append({k_ for k_, (a, b) in enumerate(pts) if c[3](value(c[1], {"x": a, "y": b}), Fr(c[4]))})
        for i, j in pairs:
            cs = [cons[i]] if i == j else [cons[i], cons[j]]
            dom = LV([("x", c12rt.dv(V(VT + "::" + dx[0], list(dx[1:])))), ("y", c12rt.dv(V(VT + "::" + dy[0], list(dy[1:]))))])
            r = I.call_fn(fn, [dom, LV([con(c[1], c[2], c[4]) for c in cs])])
            n_models += 1
            key = "%s | %s" % (dl, " ; ".join(c[0] for c in cs))
            group = cs[0][0].split(" ")[0] + ("+" + cs[1][0].split(" ")[0] if len(cs) > 1 else "")
            if is_unknown(r) or not isinstance(r, V) or "variable_bounds" not in r.fields:
                bad.setdefault(("eval", group), "%s: analysis not evaluable: %r" % (key, r))
                continue
            vb = {(k_.text() if isinstance(k_, Rp) else k_): (b_.fields["lower"], b_.fields["upper"]) for k_, b_ in r.fields["variable_bounds"].items}
            if any(lo != lo or hi != hi for lo, hi in vb.values()):
                bad.setdefault(("nan", group), "%s: NaN bound %s" % (key, vb))
                continue
            r2 = I.call_fn(ap, [r, dom])
            if is_unknown(r2):
                bad.setdefault(("eval", group), "%s: apply_to_domain not evaluable: %r" % (key, r2))
                continue
            written = {}
            for k_, d_ in dom.items:
                t_ = d_.fields["as_type"]
                written[k_] = (t_.path.rsplit("::", 1)[-1], t_.args)
            feasible_seen = False
            for k_ in sorted(truth[i] & truth[j]):
                a, b = pts[k_]
                if True:
                    feasible_seen = True
                    for nm, v_ in (("x", a), ("y", b)):
                        lo, hi = vb[nm]
                        if (lo != -INF and v_ < Fr(lo) - tol) or (hi != INF and v_ > Fr(hi) + tol):
                            bad.setdefault(("unsound", group), "%s: the feasible point x=%s, y=%s is outside the derived range of %s [%r, %r]" % (key, a, b, nm, lo, hi))
                        wk, wa = written[nm]
                        if wk != "Boolean" and len(wa) == 2:
                            wlo, whi = wa
                            if (wlo != -INF and v_ < Fr(wlo) - tol) or (whi != INF and v_ > Fr(whi) + tol):
                                bad.setdefault(("domain", group), "%s: the feasible point x=%s, y=%s is outside the domain written back for %s: %s(%r, %r)" % (key, a, b, nm, wk, wlo, whi))
            if r.fields.get("detected_infeasible") is True and feasible_seen:
                bad.setdefault(("flag", group), "%s: flagged infeasible although a grid point is feasible" % key)
    # inexact arithmetic: propagated ends that land within one rounding error of a declared end (the tolerance branches)
    inexact = [("x+y>=0.4 | x in [0,0.3], y in [0,0.1]", ("NonNegativeReal", 0.0, 0.3), ("NonNegativeReal", 0.0, 0.1), [(bop("Add", x, y), "GreaterOrEqual", 0.4)]),
               ("x>=0.1+0.2 | x in [-5,0.3]", ("Real", -5.0, 0.3), ("Real", 0.0, 1.0), [(x, "GreaterOrEqual", 0.1 + 0.2)]),
               ("1.9x<=1.9 | x in [1,5]", ("Real", 1.0, 5.0), ("Real", 0.0, 1.0), [(bop("Mul", num(1.9), x), "LessOrEqual", 1.9)]),
               ("1.9x>=9.5 | x in [1,5]", ("Real", 1.0, 5.0), ("Real", 0.0, 1.0), [(bop("Mul", num(1.9), x), "GreaterOrEqual", 1.9 * 5)]),
               ("3.9x>=42.9 | x int [0,100]", ("IntegerRange", 0, 100), ("Real", 0.0, 1.0), [(bop("Mul", num(3.9), x), "GreaterOrEqual", 42.9)]),
               ("1.9x<=15.2 | x int [0,100]", ("IntegerRange", 0, 100), ("Real", 0.0, 1.0), [(bop("Mul", num(1.9), x), "LessOrEqual", 15.2)]),
               ("x+y<=0.3, x>=0.1, y>=0.2", ("NonNegativeReal", 0.0, 1.0), ("NonNegativeReal", 0.0, 1.0), [(bop("Add", x, y), "LessOrEqual", 0.3), (x, "GreaterOrEqual", 0.1), (y, "GreaterOrEqual", 0.2)]),
               # a tiny coefficient on a very wide variable still moves the other variable's bound
               ("y<=1e-10x | x in [0,1e12], y in [0,100]", ("NonNegativeReal", 0.0, 1e12), ("NonNegativeReal", 0.0, 100.0), [(bop("Sub", y, bop("Mul", num(1e-10), x)), "LessOrEqual", 0.0)]),
               ("y>=50-1e-10x | x in [0,1e12], y in [0,100]", ("NonNegativeReal", 0.0, 1e12), ("NonNegativeReal", 0.0, 100.0), [(bop("Add", y, bop("Mul", num(1e-10), x)), "GreaterOrEqual", 50.0)]),
               ("1e-12x-y>=-1 | x in [-1e13,1e13], y in [-100,100]", ("Real", -1e13, 1e13), ("Real", -100.0, 100.0), [(bop("Sub", bop("Mul", num(1e-12), x), y), "GreaterOrEqual", -1.0)]),
               ("0.1x+0.2y>=0.3 | [0,1]^2", ("NonNegativeReal", 0.0, 1.0), ("NonNegativeReal", 0.0, 1.0), [(bop("Add", bop("Mul", num(0.1), x), bop("Mul", num(0.2), y)), "GreaterOrEqual", 0.1 * 1 + 0.2 * 1)])]
    relf = {"LessOrEqual": lambda a, b: a <= b, "GreaterOrEqual": lambda a, b: a >= b, "Equal": lambda a, b: a == b}
    for label, dx, dy, cs in inexact:
        dom = LV([("x", c12rt.dv(V(VT + "::" + dx[0], list(dx[1:])))), ("y", c12rt.dv(V(VT + "::" + dy[0], list(dy[1:]))))])
        r = I.call_fn(fn, [dom, LV([con(e, rl, c) for e, rl, c in cs])])
        n_models += 1
        if is_unknown(r) or not isinstance(r, V) or "variable_bounds" not in r.fields:
            bad.setdefault(("eval", "inexact:" + label), "%s: analysis not evaluable: %r" % (label, r))
            continue
        vb = {(k_.text() if isinstance(k_, Rp) else k_): (b_.fields["lower"], b_.fields["upper"]) for k_, b_ in r.fields["variable_bounds"].items}
        r2 = I.call_fn(ap, [r, dom])
        if is_unknown(r2):
            bad.setdefault(("eval", "inexact:" + label), "%s: apply_to_domain not evaluable: %r" % (label, r2))
            continue
        for nm, (lo, hi) in vb.items():
            if lo != lo or hi != hi or lo > hi:
                bad.setdefault(("unsound", "inexact:" + label), "%s: derived range of %s is [%r, %r] (crossed or NaN)" % (label, nm, lo, hi))
        written = {}
        for k_, d_ in dom.items:
            t_ = d_.fields["as_type"]
            written[k_] = (t_.path.rsplit("::", 1)[-1], t_.args)
            if len(t_.args) == 2 and t_.args[0] > t_.args[1]:
                bad.setdefault(("domain", "inexact:" + label), "%s: the domain written back for %s is %s(%r, %r): its lower end is above its upper end" % (label, k_, written[k_][0], t_.args[0], t_.args[1]))
        # the end points of the declared box and a few inner points
        def pts_of(d):
            lo, hi = Fr(d[1]), Fr(d[2])
            ps = {lo, hi, (lo + hi) / 2}
            if d[0] == "IntegerRange":
                ps = {Fr(i) for i in range(int(d[1]), min(int(d[2]), 20) + 1)}
            return sorted(ps)
        tol_x = Fr(0)     # the published domain is held to exact containment: these models are about ends that land within a rounding error of a declared end
        for a, b in it.product(pts_of(dx), pts_of(dy)):
            env = {"x": a, "y": b}
            if all(relf[rl](value(e, env), Fr(c)) for e, rl, c in cs):
                for nm, v_ in (("x", a), ("y", b)):
                    lo, hi = vb[nm]
                    if (lo != -INF and v_ < Fr(lo) - tol) or (hi != INF and v_ > Fr(hi) + tol):
                        bad.setdefault(("unsound", "inexact:" + label), "%s: the feasible point x=%s, y=%s is outside the derived range of %s [%r, %r]" % (label, a, b, nm, lo, hi))
                    wk, wa = written[nm]
                    if len(wa) == 2 and ((wa[0] != -INF and v_ < Fr(wa[0]) - tol_x) or (wa[1] != INF and v_ > Fr(wa[1]) + tol_x)):
                        bad.setdefault(("domain", "inexact:" + label), "%s: the feasible point x=%s, y=%s is outside the domain written back for %s: %s(%r, %r)" % (label, a, b, nm, wk, wa[0], wa[1]))
    # wide rows: four to six variables in one affine row (the contribution of *all* the other terms decides how far one
    # variable can be tightened), every relation, mixed signs, integer ranges; soundness on the corner/middle grid of the box
    def lin(names, coeffs):
        e = None
        for nm, c in zip(names, coeffs):
            t = var(nm) if c == 1.0 else (neg(var(nm)) if c == -1.0 else bop("Mul", num(c), var(nm)))
            e = t if e is None else bop("Add", e, t)
        return e
    NM = ["a", "b", "c", "d", "e", "f"]
    wide = [("a+b+c+d>=10 | [0,4]^4", 4, ("Real", 0.0, 4.0), [([1.0, 1.0, 1.0, 1.0], "GreaterOrEqual", 10.0)]),
            ("a+b+c+d+e=3 | {0,1}^5", 5, ("IntegerRange", 0, 1), [([1.0, 1.0, 1.0, 1.0, 1.0], "Equal", 3.0)]),
            ("a-b+2c-d>=5 | [-2,3]^4", 4, ("Real", -2.0, 3.0), [([1.0, -1.0, 2.0, -1.0], "GreaterOrEqual", 5.0)]),
            ("a+b+c+d<=2 | [-1,4]^4", 4, ("Real", -1.0, 4.0), [([1.0, 1.0, 1.0, 1.0], "LessOrEqual", 2.0)]),
            ("2a-b-c+d-e=1 | [-2,2]^5", 5, ("Real", -2.0, 2.0), [([2.0, -1.0, -1.0, 1.0, -1.0], "Equal", 1.0)]),
            ("a+b+c+d+e+f>=20 | [0,4]^6", 6, ("NonNegativeReal", 0.0, 4.0), [([1.0, 1.0, 1.0, 1.0, 1.0, 1.0], "GreaterOrEqual", 20.0)]),
            ("-a-b-c-d>=-3 | [0,2]^4", 4, ("NonNegativeReal", 0.0, 2.0), [([-1.0, -1.0, -1.0, -1.0], "GreaterOrEqual", -3.0)]),
            ("a+b+c+d>=6 ; a-d<=1 | [0,3]^4", 4, ("Real", 0.0, 3.0), [([1.0, 1.0, 1.0, 1.0], "GreaterOrEqual", 6.0), ([1.0, 0.0, 0.0, -1.0], "LessOrEqual", 1.0)]),
            ("0.5a+1.5b-c+d+2e<=-4 | int [-3,3]^5", 5, ("IntegerRange", -3, 3), [([0.5, 1.5, -1.0, 1.0, 2.0], "LessOrEqual", -4.0)]),
            ("a+b+c+d=0 | [-1,1]^4", 4, ("Real", -1.0, 1.0), [([1.0, 1.0, 1.0, 1.0], "Equal", 0.0)]),
            ("3a+b+c+d+e>=9 | [0,2]^5", 5, ("Real", 0.0, 2.0), [([3.0, 1.0, 1.0, 1.0, 1.0], "GreaterOrEqual", 9.0)])]
    for label, nv, d, rows in wide:
        names = NM[:nv]
        dom = LV([(nm, c12rt.dv(V(VT + "::" + d[0], list(d[1:])))) for nm in names])
        cs = []
        for coeffs, rl, c in rows:
            used = [(nm, k_) for nm, k_ in zip(names, coeffs) if k_ != 0.0]
            cs.append((lin([u[0] for u in used], [u[1] for u in used]), rl, c, coeffs))
        r = I.call_fn(fn, [dom, LV([con(e, rl, c) for e, rl, c, _ in cs])])
        n_models += 1
        g = "wide:" + label.split(" |")[0]
        if is_unknown(r) or not isinstance(r, V) or "variable_bounds" not in r.fields:
            bad.setdefault(("eval", g), "%s: analysis not evaluable: %r" % (label, r))
            continue
        vb = {(k_.text() if isinstance(k_, Rp) else k_): (b_.fields["lower"], b_.fields["upper"]) for k_, b_ in r.fields["variable_bounds"].items}
        r2 = I.call_fn(ap, [r, dom])
        if is_unknown(r2):
            bad.setdefault(("eval", g), "%s: apply_to_domain not evaluable: %r" % (label, r2))
            continue
        written = {}
        for k_, d_ in dom.items:
            t_ = d_.fields["as_type"]
            written[k_] = (t_.path.rsplit("::", 1)[-1], t_.args)
        lo_, hi_ = Fr(d[1]), Fr(d[2])
        axis = [Fr(i) for i in range(int(d[1]), int(d[2]) + 1)] if d[0] == "IntegerRange" and d[2] - d[1] <= 2 else ([lo_, hi_, Fr(int((lo_ + hi_) / 2))] if d[0] == "IntegerRange" else [lo_, hi_, (lo_ + hi_) / 2])
        seen = False
        for pt in it.product(sorted(set(axis)), repeat=nv):
            if not all(relf[rl](sum(Fr(k_) * v_ for k_, v_ in zip(coeffs, pt)), Fr(c)) for _, rl, c, coeffs in cs):
                continue
            seen = True
            for nm, v_ in zip(names, pt):
                lo, hi = vb.get(nm, (-INF, INF))
                if (lo != -INF and v_ < Fr(lo) - tol) or (hi != INF and v_ > Fr(hi) + tol):
                    bad.setdefault(("unsound", g), "%s: the feasible point %s is outside the derived range of %s [%r, %r]" % (label, dict(zip(names, map(str, pt))), nm, lo, hi))
                wk, wa = written[nm]
                if wk != "Boolean" and len(wa) == 2 and ((wa[0] != -INF and v_ < Fr(wa[0]) - tol) or (wa[1] != INF and v_ > Fr(wa[1]) + tol)):
                    bad.setdefault(("domain", g), "%s: the feasible point %s is outside the domain written back for %s: %s(%r, %r)" % (label, dict(zip(names, map(str, pt))), nm, wk, wa[0], wa[1]))
        if r.fields.get("detected_infeasible") is True and seen:
            bad.setdefault(("flag", g), "%s: flagged infeasible although a grid point is feasible" % label)
    # extremes of three operands whose ranges differ (the deciding operand in the middle): forward enclosure, reverse rules
    # and the published domains, on the corner/middle grid
    a_, b_, c_ = var("a"), var("b"), var("c")
    tri = [("min(a,b,c)>=-100", [(mn(a_, b_, c_), "GreaterOrEqual", -100.0)], lambda p: min(p) >= -100), ("min(a,b,c)>=1", [(mn(a_, b_, c_), "GreaterOrEqual", 1.0)], lambda p: min(p) >= 1),
           ("max(a,b,c)<=100", [(mx(a_, b_, c_), "LessOrEqual", 100.0)], lambda p: max(p) <= 100), ("max(a,b,c)<=3", [(mx(a_, b_, c_), "LessOrEqual", 3.0)], lambda p: max(p) <= 3),
           ("min(a,b,c)<=-2", [(mn(a_, b_, c_), "LessOrEqual", -2.0)], lambda p: min(p) <= -2), ("max(a,b,c)>=9", [(mx(a_, b_, c_), "GreaterOrEqual", 9.0)], lambda p: max(p) >= 9),
           ("a+min(a,b,c)>=0", [(bop("Add", a_, mn(a_, b_, c_)), "GreaterOrEqual", 0.0)], lambda p: p[0] + min(p) >= 0), ("max(a,b,c)-c<=2", [(bop("Sub", mx(a_, b_, c_), c_), "LessOrEqual", 2.0)], lambda p: max(p) - p[2] <= 2)]
    boxes = [("mid-low", (("Real", 0.0, 10.0), ("Real", -5.0, 10.0), ("Real", 0.0, 10.0))), ("mid-high", (("Real", 0.0, 4.0), ("Real", 0.0, 12.0), ("Real", 0.0, 4.0))), ("ints", (("IntegerRange", 0, 6), ("IntegerRange", -4, 9), ("IntegerRange", 1, 6)))]
    for (tl, tcs, tf), (bl, bx3) in it.product(tri, boxes):
        names = ["a", "b", "c"]
        dom = LV([(nm, c12rt.dv(V(VT + "::" + d_[0], list(d_[1:])))) for nm, d_ in zip(names, bx3)])
        r = I.call_fn(fn, [dom, LV([con(e, rl, c) for e, rl, c in tcs])])
        n_models += 1
        g = "extreme3:" + tl
        label = "%s | %s" % (bl, tl)
        if is_unknown(r) or not isinstance(r, V) or "variable_bounds" not in r.fields:
            bad.setdefault(("eval", g), "%s: analysis not evaluable: %r" % (label, r))
            continue
        vb = {(k_.text() if isinstance(k_, Rp) else k_): (b2.fields["lower"], b2.fields["upper"]) for k_, b2 in r.fields["variable_bounds"].items}
        r2 = I.call_fn(ap, [r, dom])
        if is_unknown(r2):
            bad.setdefault(("eval", g), "%s: apply_to_domain not evaluable: %r" % (label, r2))
            continue
        written = {}
        for k_, d_ in dom.items:
            t_ = d_.fields["as_type"]
            written[k_] = (t_.path.rsplit("::", 1)[-1], t_.args)
        axes = []
        for d_ in bx3:
            lo_, hi_ = Fr(d_[1]), Fr(d_[2])
            axes.append(sorted({lo_, hi_, Fr(int((lo_ + hi_) / 2)), lo_ + 1, hi_ - 1}))
        seen = False
        for pt in it.product(*axes):
            if not tf(pt):
                continue
            seen = True
            for nm, v_ in zip(names, pt):
                lo, hi = vb.get(nm, (-INF, INF))
                if (lo != -INF and v_ < Fr(lo) - tol) or (hi != INF and v_ > Fr(hi) + tol):
                    bad.setdefault(("unsound", g), "%s: the feasible point %s is outside the derived range of %s [%r, %r]" % (label, dict(zip(names, map(str, pt))), nm, lo, hi))
                wk, wa = written[nm]
                if wk != "Boolean" and len(wa) == 2 and ((wa[0] != -INF and v_ < Fr(wa[0]) - tol) or (wa[1] != INF and v_ > Fr(wa[1]) + tol)):
                    bad.setdefault(("domain", g), "%s: the feasible point %s is outside the domain written back for %s: %s(%r, %r)" % (label, dict(zip(names, map(str, pt))), nm, wk, wa[0], wa[1]))
        if r.fields.get("detected_infeasible") is True and seen:
            bad.setdefault(("flag", g), "%s: flagged infeasible although a grid point is feasible" % label)
    R.count("BOUNDS-SOUND.models", n_models)
    R.count("BOUNDS-SOUND.constraints", len(cons))
    for stage, text_ in (("eval", "the analysis is evaluable on every model"), ("nan", "no NaN bound"), ("unsound", "every feasible grid point is inside the derived ranges"), ("domain", "every feasible grid point is inside the domains written back"), ("flag", "the infeasibility flag is never raised on a feasible model")):
        b = {g: v for (s, g), v in bad.items() if s == stage}
        if not b:
            R.ob("BOUNDS-SOUND", stage, True, "packages/rooc/src/transformers/bounds.rs", "%s (%d models)" % (text_, n_models))
        for g, v in sorted(b.items())[:12]:
            R.ob("BOUNDS-SOUND", "%s:%s" % (stage, g), False, "packages/rooc/src/transformers/bounds.rs", v)
