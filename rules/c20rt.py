"""GOODLP-BRIDGE-EQUIV (C20, C04, C05): the good_lp / Clarabel bridge evaluated against a recording model of good_lp.

solve_real_lp_problem_clarabel -> solve_with_good_lp (variable_definition, the objective and row expressions built with
good_lp's operators, add_constraint, configure / solve / validate / extract_duals closures, collect_good_lp_duals,
map_resolution_error) is evaluated from its typed HIR.  good_lp is replaced by a recorder: variables, expressions
(constant + coefficient per variable), constraints, the objective and its direction are kept as given; `solve` returns a
scripted solution (a value per variable, a dual per constraint reference, a status, Clarabel's own status) or a scripted
error.  Obligations:

  problem   one good_lp variable per model variable, in order, with the declared bounds; the objective handed over is the
            model's (coefficients, constant) with the model's direction -- Max is not turned into a negated Min, which
            would flip the sign of every dual; each row is handed over with its coefficients, its comparison (<= as leq,
            >= as geq, = as eq, expression on the left) and its right-hand side
  duals     every named row's shadow price is the dual the solver holds for *that row's* constraint reference, unchanged
            (no sign change, no scaling, no zeroing); unnamed rows are left out; the scripted duals are all different and
            include values of both signs, tiny ones, and rows that are slack, binding, and have a zero right-hand side
  answer    each variable is reported with its own value; the objective is the model's objective at those values incl. the
            constant; row activities are the rows at those values
  verdicts  ResolutionError::Infeasible / Unbounded -> the same SolverError; Clarabel's (Almost)DualInfeasible ->
            Unbounded; TimeLimit / GapLimit -> Feasible"""
from interp import Interp, Var, Rope, ListV, MutRef, Unknown, is_unknown, SOME_PATHS, NONE_PATHS, OK_PATHS, ERR_PATHS
import c04rt
import roundtrip


def deep_unknown(r):
    if is_unknown(r):
        return r
    try:
        return roundtrip.find_unknown(r)
    except Exception:
        return None

CLARABEL = "solvers::clarabel::solve_real_lp_problem_clarabel"
INF = float("inf")


class Expr:
    def __init__(self, const=0.0, terms=None):
        self.const = const
        self.terms = dict(terms or {})

    def plus(self, o):
        r = Expr(self.const, self.terms)
        if isinstance(o, Expr):
            r.const += o.const
            for k, v in o.terms.items():
                r.terms[k] = r.terms.get(k, 0.0) + v
        elif isinstance(o, Var) and o.path == "good_lp::Variable":
            r.terms[o.args[0]] = r.terms.get(o.args[0], 0.0) + 1.0
        elif isinstance(o, (int, float)):
            r.const += o
        else:
            return None
        return r

    def __repr__(self):
        return "Expr(%r + %r)" % (self.const, self.terms)


class Mock:
    def __init__(self):
        self.reset(None)

    def reset(self, script):
        self.script = script or {}
        self.cols = []
        self.rows = []
        self.direction = None
        self.objective = None
        self.solved = 0

    def install(self, I):
        M = self
        num = lambda x: x.get() if isinstance(x, MutRef) else x

        def vd_new(I_, a):
            return Var("good_lp::VariableDefinition", fields={"name": None, "kind": "continuous", "min": -INF, "max": INF})

        def vd_set(field, value=None):
            def f(I_, a):
                d = Var("good_lp::VariableDefinition", fields=dict(a[0].fields))
                if field == "kind":
                    d.fields["kind"] = value
                    if value == "binary":
                        d.fields["min"], d.fields["max"] = 0.0, 1.0
                else:
                    v = num(a[1])
                    d.fields[field] = (v.text() if isinstance(v, Rope) else v)
                return d
            return f

        def pv_add(I_, a):
            M.cols.append(dict(a[1].fields))
            return Var("good_lp::Variable", [len(M.cols) - 1])

        def e_from(I_, a):
            return Expr(float(num(a[0])))

        def mul(I_, a):
            x, v = num(a[0]), num(a[1])
            if isinstance(x, (int, float)) and isinstance(v, Var) and v.path == "good_lp::Variable":
                return Expr(0.0, {v.args[0]: float(x)})
            if isinstance(v, (int, float)) and isinstance(x, Var) and x.path == "good_lp::Variable":
                return Expr(0.0, {x.args[0]: float(v)})
            if isinstance(x, Expr) and isinstance(v, (int, float)):
                return Expr(x.const * v, {k: c * v for k, c in x.terms.items()})
            if isinstance(v, Expr) and isinstance(x, (int, float)):
                return Expr(v.const * x, {k: c * x for k, c in v.terms.items()})
            return Unknown("good_lp product of %r and %r" % (x, v))

        def add(I_, a):
            l, r = num(a[0]), num(a[1])
            if isinstance(l, Var) and l.path == "good_lp::Variable":
                l = Expr(0.0, {l.args[0]: 1.0})
            if isinstance(l, (int, float)):
                l = Expr(float(l))
            res = l.plus(r) if isinstance(l, Expr) else None
            return res if res is not None else Unknown("good_lp sum of %r and %r" % (l, r))

        def neg(I_, a):
            x = num(a[0])
            if isinstance(x, Expr):
                return Expr(-x.const, {k: -c for k, c in x.terms.items()})
            if isinstance(x, Var) and x.path == "good_lp::Variable":
                return Expr(0.0, {x.args[0]: -1.0})
            return Unknown("good_lp negation of %r" % (x,))

        def sub(I_, a):
            r = neg(I_, [a[1]]) if not isinstance(num(a[1]), (int, float)) else Expr(-float(num(a[1])))
            return r if is_unknown(r) else add(I_, [a[0], r])

        def cmp_(op):
            def f(I_, a):
                l, r = num(a[0]), num(a[1])
                if isinstance(l, Var) and l.path == "good_lp::Variable":
                    l = Expr(0.0, {l.args[0]: 1.0})
                if isinstance(l, (int, float)):
                    l = Expr(float(l))
                if isinstance(r, Var) and r.path == "good_lp::Variable":
                    r = Expr(0.0, {r.args[0]: 1.0})
                if isinstance(r, (int, float)):
                    r = Expr(float(r))
                if not (isinstance(l, Expr) and isinstance(r, Expr)):
                    return Unknown("good_lp comparison of %r and %r" % (l, r))
                # normal form: (l - r) op 0, kept with both sides so that the side the expression was written on is visible
                return Var("good_lp::Constraint", fields={"lhs": l, "op": op, "rhs": r})
            return f

        def optimise(I_, a):
            d = a[1]
            M.direction = d.path.rsplit("::", 1)[-1] if isinstance(d, Var) else repr(d)
            o = num(a[2])
            if isinstance(o, Var) and o.path == "good_lp::Variable":
                o = Expr(0.0, {o.args[0]: 1.0})
            M.objective = o
            return Var("good_lp::UnsolvedProblem")

        def using(I_, a):
            return Var("good_lp::Model")

        def add_constraint(I_, a):
            M.rows.append(a[1])
            return Var("good_lp::ConstraintReference", [len(M.rows) - 1])

        def solve(I_, a):
            M.solved += 1
            if M.script.get("error"):
                e = M.script["error"]
                return Var(ERR_PATHS[0], [Var("good_lp::ResolutionError::" + e, [Rope(["scripted"])] if e in ("Str",) else [])])
            return Var(OK_PATHS[0], [Var("good_lp::solvers::clarabel::ClarabelSolution")])

        def value(I_, a):
            v = num(a[1])
            vals = M.script.get("values", [])
            i = v.args[0] if isinstance(v, Var) and v.args else None
            return vals[i] if isinstance(i, int) and i < len(vals) else Unknown("value of an unknown variable %r" % (v,))

        def status(I_, a):
            return Var("good_lp::SolutionStatus::" + M.script.get("status", "Optimal"))

        def inner(I_, a):
            # clarabel's DefaultSolution: at a (dual) infeasibility status `x` holds a certificate (an improving ray), not a
            # point of the model; z, s and the objective values are there too
            xs = M.script.get("clarabel_x", M.script.get("values", []))
            return Var("clarabel::solver::DefaultSolution", fields={"status": Var("clarabel::solver::SolverStatus::" + M.script.get("clarabel_status", "Solved")), "x": ListV(list(xs)), "z": ListV([]), "s": ListV([]),
                                                                    "obj_val": M.script.get("objective", 0.0), "obj_val_dual": M.script.get("objective", 0.0), "iterations": 9, "r_prim": 0.0, "r_dual": 0.0})

        def compute_dual(I_, a):
            return Var("good_lp::solvers::clarabel::ClarabelDual")

        def dual(I_, a):
            r = num(a[1])
            ds = M.script.get("duals", [])
            i = r.args[0] if isinstance(r, Var) and r.args else None
            return ds[i] if isinstance(i, int) and i < len(ds) else Unknown("dual of an unknown constraint %r" % (r,))
        I.models.update({
            "good_lp::VariableDefinition::new": vd_new, "good_lp::VariableDefinition::name": vd_set("name"), "good_lp::VariableDefinition::min": vd_set("min"), "good_lp::VariableDefinition::max": vd_set("max"),
            "good_lp::VariableDefinition::binary": vd_set("kind", "binary"), "good_lp::VariableDefinition::integer": vd_set("kind", "integer"),
            "good_lp::ProblemVariables::new": lambda I_, a: Var("good_lp::ProblemVariables"), "good_lp::ProblemVariables::add": pv_add,
            "<good_lp::Expression as std::convert::From<f64>>::from": e_from, "good_lp::Expression::with_capacity": lambda I_, a: Expr(0.0),
            "good_lp::variable::<impl std::ops::Mul<good_lp::Variable> for f64>::mul": mul,
            "<good_lp::Expression as std::ops::Add<RHS>>::add": add, "<good_lp::Expression as std::ops::Sub<RHS>>::sub": sub, "<good_lp::Expression as std::ops::Neg>::neg": neg,
            "<good_lp::Expression as std::ops::Mul<f64>>::mul": mul, "good_lp::expression::<impl std::ops::Mul<good_lp::Expression> for f64>::mul": mul,
            "<good_lp::Variable as std::ops::Mul<f64>>::mul": mul, "<good_lp::Variable as std::ops::Neg>::neg": neg,
            "good_lp::Expression::leq": cmp_("leq"), "good_lp::Expression::geq": cmp_("geq"), "good_lp::Expression::eq": cmp_("eq"),
            "good_lp::ProblemVariables::optimise": optimise, "good_lp::variable::UnsolvedProblem::using": using,
            "good_lp::SolverModel::add_constraint": add_constraint, "good_lp::SolverModel::solve": solve,
            "good_lp::Solution::value": value, "good_lp::Solution::status": status,
            "good_lp::solvers::clarabel::ClarabelSolution::inner": inner,
            "<good_lp::solvers::clarabel::ClarabelSolution as good_lp::SolutionWithDual>::compute_dual": compute_dual,
            "<good_lp::solvers::clarabel::ClarabelSolution as good_lp::SolutionWithDual<'a>>::compute_dual": compute_dual,
            "good_lp::SolutionWithDual::compute_dual": compute_dual,
            "good_lp::DualValues::dual": dual,
            "<good_lp::constraint::ConstraintReference as std::clone::Clone>::clone": lambda I_, a: a[0],
        })


def models():
    out = []

    def m(label, vars_, rows, obj, sense, offset=0.0):
        out.append({"label": label, "vars": vars_, "rows": rows, "obj": obj, "sense": sense, "offset": offset, "real_only": True})
    V = [("y", ("NonNegativeReal", 2.0, 10.0)), ("x", ("Real", -1.0, 1.0)), ("w", ("NonNegativeReal", 0.0, INF)), ("v", ("Real", -INF, 3.0))]
    R_ = [("cap", [1.0, 1.0, 0.0, -2.0], "GreaterOrEqual", 3.0), ("", [0.0, 4.0, -1.0, 0.0], "LessOrEqual", 8.0), ("ratio", [1.0, -3.0, 0.0, 0.0], "LessOrEqual", 0.0),
          ("bal", [0.3, 0.0, -0.7, 0.0], "Equal", 0.0), ("", [1.0, 0.0, 0.0, 0.0], "LessOrEqual", 100.0), ("lim", [0.0, 0.0, 1.0, 1.0], "LessOrEqual", 6.5), ("eq2", [2.0, 1.0, 1.0, 0.0], "Equal", 9.0)]
    m("mixed rows, minimised", V, R_, [2.0, 1.0, -1.0, 0.25], "Min", 0.5)
    m("mixed rows, maximised", V, R_, [2.0, 1.0, -1.0, 0.25], "Max", -1.5)
    m("satisfy", V, R_[:3], [0.0, 0.0, 0.0, 0.0], "Satisfy")
    m("one row", [("x", ("NonNegativeReal", 0.0, INF))], [("only", [1.0], "GreaterOrEqual", 2.0)], [1.0], "Min")
    # rows far from unit scale: a shadow price is per unit of the row's own right-hand side, whatever the solver is given
    W = [("x", ("NonNegativeReal", 0.0, INF)), ("y", ("NonNegativeReal", 0.0, INF))]
    RW = [("big", [5000.0, 10000.0], "LessOrEqual", 20000.0), ("mix", [3.0, 1.0], "LessOrEqual", 6.0), ("demand", [2500.0, 2500.0], "GreaterOrEqual", 25000.0), ("tiny", [0.0005, -0.00025], "Equal", 0.001), ("", [1e6, 0.0], "LessOrEqual", 1e9)]
    # row names are names: leading underscores, a `$`, a generated-looking suffix
    RN = [("__cap", [1.0, 1.0], "LessOrEqual", 8.0), ("_lo", [1.0, -1.0], "GreaterOrEqual", -2.0), ("$r", [2.0, 1.0], "LessOrEqual", 12.0), ("cap__2", [0.0, 1.0], "LessOrEqual", 5.0), ("__", [1.0, 0.0], "Equal", 3.0)]
    m("unusual row names, maximised", W, RN, [3.0, 2.0], "Max")
    m("unusual row names, minimised", W, RN, [-1.0, 2.0], "Min")
    m("large and small rows, maximised", W, RW, [3.0, 2.0], "Max")
    m("large and small rows, minimised", W, RW, [2.0, 3.0], "Min", 1.0)
    return out


def check(F, R, tier="quick", props=("C20", "C04", "C05")):
    where = "packages/rooc/src/solvers/good_lp.rs"
    if F.fn(CLARABEL) is None:
        R.undecided("GOODLP-BRIDGE-EQUIV", "anchor", where, "solve_real_lp_problem_clarabel not found (feature off?)")
        return
    I = Interp(F)
    I.concrete_floats = True
    I.max_depth = 600
    mock = Mock()
    mock.install(I)
    R.fn(CLARABEL)
    R.fn("solvers::good_lp::solve_with_good_lp")
    R.fn("solvers::good_lp::collect_good_lp_duals")
    mds = models()
    R.count("GOODLP-BRIDGE-EQUIV.models", len(mds))
    n_runs = 0
    for md in mds:
        key0 = md["label"].replace(" ", "-")
        vals = c04rt.scripted_values(md)
        duals = [(-1.0) ** k * (0.125 + 1.75 * k) if k % 4 != 3 else 1e-9 * (k + 1) for k in range(len(md["rows"]))]
        lm = c04rt.build_model(I, md)
        if is_unknown(lm):
            R.undecided("GOODLP-BRIDGE-EQUIV", key0 + ":model", where, "the model could not be built: %r" % (lm,))
            continue
        mock.reset({"values": vals, "duals": duals, "status": "Optimal"})
        r = I.call_fn(CLARABEL, [lm])
        n_runs += 1
        if deep_unknown(r) is not None:
            R.undecided("GOODLP-BRIDGE-EQUIV", key0, where, "bridge not evaluable: %r" % (deep_unknown(r),))
            continue
        if not (isinstance(r, Var) and r.path in OK_PATHS):
            R.ob("GOODLP-BRIDGE-EQUIV", key0 + ":answer", False, where, "the solver answers and the bridge returns %r" % (r,))
            continue
        sol = r.args[0]
        n = len(md["vars"])
        scale = {}
        if "C04" in props or "C20" in props:
            # ---- the problem handed over
            ok_n = len(mock.cols) == n
            R.ob("GOODLP-BRIDGE-EQUIV", key0 + ":variable-count", ok_n, where, "%d solver variables for %d model variables" % (len(mock.cols), n))
            if ok_n:
                for i, ((name, dom), col) in enumerate(zip(md["vars"], mock.cols)):
                    R.ob("GOODLP-BRIDGE-EQUIV", "%s:variable:%s" % (key0, name), col.get("kind") == "continuous" and col.get("min") == dom[1] and col.get("max") == dom[2], where,
                         "variable %d (%s: %s) is defined as %s in [%r, %r]" % (i, name, dom, col.get("kind"), col.get("min"), col.get("max")))
            want_dir = "Maximisation" if md["sense"] == "Max" else "Minimisation"
            o = mock.objective
            if isinstance(o, Expr):
                want_terms = {i: c for i, c in enumerate(md["obj"]) if c != 0.0} if md["sense"] != "Satisfy" else {}
                got_terms = {i: c for i, c in o.terms.items() if c != 0.0}
                want_const = md["offset"] if md["sense"] != "Satisfy" else 0.0
                R.ob("GOODLP-BRIDGE-EQUIV", key0 + ":objective", mock.direction == want_dir and got_terms == want_terms and o.const == want_const, where,
                     "the model's objective (%s %s + %r) is handed over as %s %s + %r (a negated objective under the other direction finds the same point but flips every dual)" % (md["sense"], want_terms, want_const, mock.direction, got_terms, o.const))
            else:
                R.undecided("GOODLP-BRIDGE-EQUIV", key0 + ":objective", where, "objective not recorded: %r" % (o,))
            ok_r = len(mock.rows) == len(md["rows"])
            R.ob("GOODLP-BRIDGE-EQUIV", key0 + ":row-count", ok_r, where, "%d constraints for %d rows" % (len(mock.rows), len(md["rows"])))
            if ok_r:
                for j, ((name, coeffs, cmp_, rhs), c) in enumerate(zip(md["rows"], mock.rows)):
                    if not (isinstance(c, Var) and c.path == "good_lp::Constraint"):
                        R.undecided("GOODLP-BRIDGE-EQUIV", "%s:row:%d" % (key0, j), where, "constraint not recorded: %r" % (c,))
                        continue
                    l, rr, op = c.fields["lhs"], c.fields["rhs"], c.fields["op"]
                    want_op = {"LessOrEqual": "leq", "GreaterOrEqual": "geq", "Equal": "eq"}[cmp_]
                    want = {i: x for i, x in enumerate(coeffs) if x != 0.0}
                    lt = {i: x for i, x in l.terms.items() if x != 0.0}
                    ok = op == want_op and lt == want and not rr.terms and (rr.const - l.const) == rhs
                    if not ok and not rr.terms and set(lt) == set(want) and want:
                        # the same row at another scale (k times the row, the relation turned round for k < 0) has the same
                        # solutions; its dual is per unit of the scaled right-hand side, so the reported price must be k times it
                        i0 = sorted(want)[0]
                        k_ = lt[i0] / want[i0]
                        close = lambda a_, b_: abs(a_ - b_) <= 1e-12 * max(abs(a_), abs(b_), 1e-300)
                        flip = {"leq": "geq", "geq": "leq", "eq": "eq"}
                        if k_ != 0.0 and all(close(lt[i_], k_ * want[i_]) for i_ in want) and close(rr.const - l.const, k_ * rhs) and op == (want_op if k_ > 0 else flip[want_op]):
                            scale[j] = k_
                            ok = True
                    R.ob("GOODLP-BRIDGE-EQUIV", "%s:row:%d" % (key0, j), ok, where, "row %d (%s %s %r) is handed over as %s + %r %s %s + %r (the row's expression on the left: the sign of its dual depends on it)" % (j, want, cmp_, rhs, lt, l.const, op, rr.terms, rr.const))
        if "C20" in props:
            sp = sol.fields.get("shadow_prices") if isinstance(sol, Var) else None
            got = {}
            if isinstance(sp, Var) and sp.path in SOME_PATHS:
                sp = sp.args[0]
            if isinstance(sp, ListV):
                for it_ in sp.items:
                    if isinstance(it_, tuple) and len(it_) == 2:
                        k_ = it_[0].text() if isinstance(it_[0], Rope) else it_[0]
                        v_ = it_[1].get() if isinstance(it_[1], MutRef) else it_[1]
                        got[k_] = v_
            else:
                R.undecided("GOODLP-BRIDGE-EQUIV", key0 + ":duals", where, "shadow prices not readable: %r" % (sp,))
                got = None
            if got is not None:
                named = [(name, duals[j], scale.get(j, 1.0)) for j, (name, _, _, _) in enumerate(md["rows"]) if name]
                for name, d, k_ in named:
                    same = name in got and (got[name] == d * k_ or (k_ != 1.0 and isinstance(got[name], float) and abs(got[name] - d * k_) <= 1e-12 * abs(d * k_)))
                    R.ob("GOODLP-BRIDGE-EQUIV", "%s:dual:%s" % (key0, name), same, where, "the solver's dual of row %s is %r%s; the reported shadow price is %r" % (name, d, "" if k_ == 1.0 else " for the row handed over at %r times its scale (so %r per unit of the model's right-hand side)" % (k_, d * k_), got.get(name, "<absent>")))
                extra = sorted(set(got) - {nm for nm, _, _ in named})
                R.ob("GOODLP-BRIDGE-EQUIV", key0 + ":dual-names", not extra, where, "shadow prices reported under names that are not row names: %s" % extra)
        if "C04" in props:
            asg = sol.fields.get("assignment") if isinstance(sol, Var) else None
            pt = []
            if isinstance(asg, ListV):
                for a in asg.items:
                    nm = a.fields.get("name")
                    v = a.fields.get("value")
                    pt.append((nm.text() if isinstance(nm, Rope) else nm, v.get() if isinstance(v, MutRef) else v))
            R.ob("GOODLP-BRIDGE-EQUIV", key0 + ":values", pt == [(nm, vals[i]) for i, (nm, _) in enumerate(md["vars"])], where, "solver values %s are reported as %s" % (vals, pt))
            val = sol.fields.get("value") if isinstance(sol, Var) else None
            val = val.get() if isinstance(val, MutRef) else val
            want_v = md["offset"]
            for c, x in zip(md["obj"], vals):
                want_v += c * x
            R.ob("GOODLP-BRIDGE-EQUIV", key0 + ":objective-value", isinstance(val, (int, float)) and abs(val - want_v) <= 1e-9 * max(1.0, abs(want_v)), where, "the objective at the returned values incl. the constant is %r, reported %r" % (want_v, val))
    # verdicts
    if "C05" in props or "C20" in props:
        md = mds[0]
        for script, want in (({"error": "Infeasible"}, "Infeasible"), ({"error": "Unbounded"}, "Unbounded"), ({"error": "Str"}, "Other"), ({"clarabel_status": "DualInfeasible"}, "Unbounded"), ({"clarabel_status": "AlmostDualInfeasible"}, "Unbounded")):
            lm = c04rt.build_model(I, md)
            sc = {"values": c04rt.scripted_values(md), "duals": [0.5] * len(md["rows"]), "status": "Optimal"}
            sc.update(script)
            if "clarabel_status" in script:
                # the certificate: a direction, normalised, that is no point of the model (it violates rows and ranges)
                sc["clarabel_x"] = [(-1.0) ** i_ * 1e3 for i_ in range(len(md["vars"]))]
            mock.reset(sc)
            r = I.call_fn(CLARABEL, [lm])
            n_runs += 1
            key = "verdict:" + "".join("%s" % v for v in script.values())
            if deep_unknown(r) is not None:
                R.undecided("GOODLP-BRIDGE-EQUIV", key, where, "bridge not evaluable: %r" % (deep_unknown(r),))
                continue
            got = r.args[0].path.rsplit("::", 1)[-1] if isinstance(r, Var) and r.path in ERR_PATHS and isinstance(r.args[0], Var) else repr(r)[:80]
            R.ob("GOODLP-BRIDGE-EQUIV", key, got == want, where, "the solver's %s is reported as %s, expected SolverError::%s" % (script, got, want))
        for st, want in (("Optimal", "Optimal"), ("TimeLimit", "Feasible"), ("GapLimit", "Feasible")):
            lm = c04rt.build_model(I, md)
            mock.reset({"values": c04rt.scripted_values(md), "duals": [0.5] * len(md["rows"]), "status": st})
            r = I.call_fn(CLARABEL, [lm])
            n_runs += 1
            key = "status:" + st
            if deep_unknown(r) is not None:
                R.undecided("GOODLP-BRIDGE-EQUIV", key, where, "bridge not evaluable: %r" % (deep_unknown(r),))
                continue
            s_ = r.args[0].fields.get("status") if isinstance(r, Var) and r.path in OK_PATHS and isinstance(r.args[0], Var) else None
            R.ob("GOODLP-BRIDGE-EQUIV", key, isinstance(s_, Var) and s_.path.endswith("::" + want), where, "good_lp's status %s is reported as %r, expected %s" % (st, s_ if s_ is not None else r, want))
    R.count("GOODLP-BRIDGE-EQUIV.evaluations", n_runs)
