"""Grammar-driven program texts for the ROUND-TRIP rule: for every choice alternative, optional part and repetition of the
grammar (reached from `problem` by the shortest chain of rules, everything else minimal), and for every expression slot x
every expression form, one program text.  Texts are produced from the grammar AST alone; whether a text is a valid program
is decided afterwards by the matcher model and the converters."""
from grammar import untag

BUILTIN_MIN = {"LETTER": "a", "NUMBER": "1", "ANY": "a", "NEWLINE": "\n", "SOI": "", "EOI": "", "ASCII_DIGIT": "1", "ASCII_HEX_DIGIT": "a", "ASCII_ALPHA": "a"}


class Gen:
    def __init__(self, G, lexical=None):
        self.G = G
        # rule name -> list of texts to use instead of the minimal derivation (identifiers the converters understand)
        self.lexical = lexical or {}
        self.memo = {}
        self.parents = {}
        self.nodes = {}
        for name in G.order:
            self._index(name, G.expr(name), None)
        self.ctx = []

    def _index(self, rule, e, parent):
        self.nodes[id(e)] = (rule, e)
        self.parents[id(e)] = parent
        for key in ("a", "b", "e"):
            if isinstance(e.get(key), dict):
                self._index(rule, e[key], e)

    # ---- minimal texts --------------------------------------------------------------------------------
    def min_rule(self, name, stack=(), inherited=False):
        if name in self.lexical_now():
            return self.lexical_now()[name]
        if name not in self.G.rules:
            return BUILTIN_MIN.get(name, "")
        key = (name, inherited)
        if key in self.memo:
            return self.memo[key]
        if name in stack:
            return None
        atomic = self.atomicity(name, inherited)
        t = self.min_expr(self.G.expr(name), stack + (name,), atomic)
        if not stack:
            self.memo[key] = t
        return t

    def atomicity(self, name, inherited):
        ty = self.G.ty(name)
        if ty in ("Atomic", "CompoundAtomic"):
            return True
        if ty == "NonAtomic":
            return False
        return inherited

    def lexical_now(self):
        return {k: v[0] for k, v in self.lexical.items()}

    def join(self, a, b, atomic):
        if atomic or not a or not b:
            return a + b
        if a[-1] in "\n" or b[0] in "\n":
            return a + b
        return a + " " + b

    def min_expr(self, e, stack, atomic):
        k = e["k"]
        if k in ("Str", "Insens"):
            return e["v"]
        if k == "Range":
            return e["lo"]
        if k == "Ident":
            r = self.min_rule(e["v"], stack, atomic)
            return r
        if k == "Seq":
            a = self.min_expr(e["a"], stack, atomic)
            b = self.min_expr(e["b"], stack, atomic)
            if a is None or b is None:
                return None
            return self.join(a, b, atomic)
        if k == "Choice":
            best = None
            for alt in (e["a"], e["b"]):
                t = self.min_expr(alt, stack, atomic)
                if t is not None and (best is None or len(t) < len(best)):
                    best = t
            return best
        if k in ("Opt", "Rep", "PosPred", "NegPred", "RepMax"):
            return ""
        if k in ("RepOnce", "NodeTag"):
            return self.min_expr(e["e"], stack, atomic)
        if k in ("RepMin", "RepExact"):
            t = self.min_expr(e["e"], stack, atomic)
            if t is None:
                return None
            out = ""
            for _ in range(e["n"]):
                out = self.join(out, t, atomic)
            return out
        if k == "RepMinMax":
            t = self.min_expr(e["e"], stack, atomic)
            if t is None:
                return None
            out = ""
            for _ in range(e["min"]):
                out = self.join(out, t, atomic)
            return out
        return ""

    # ---- directed derivations -------------------------------------------------------------------------
    def rule_chain(self, target_rule, start="problem"):
        """shortest chain of rules start -> ... -> target_rule, as [(rule, ident node leading to the next)]"""
        from collections import deque
        prev = {start: None}
        q = deque([start])
        while q:
            r = q.popleft()
            if r == target_rule:
                break
            for n in self._idents(self.G.expr(r)):
                t = n["v"]
                if t in self.G.rules and t not in prev:
                    prev[t] = (r, n)
                    q.append(t)
        if target_rule not in prev:
            return None
        chain = []
        cur = target_rule
        while prev[cur] is not None:
            r, n = prev[cur]
            chain.append((r, n))
            cur = r
        return list(reversed(chain))

    def _idents(self, e):
        if e["k"] == "Ident":
            yield e
        if e["k"] in ("NegPred", "PosPred"):
            return
        for key in ("a", "b", "e"):
            if isinstance(e.get(key), dict):
                for x in self._idents(e[key]):
                    yield x

    def path_ids(self, node):
        out = set()
        n = node
        while n is not None:
            out.add(id(n))
            n = self.parents.get(id(n))
        return out

    def derive(self, target_node, mode, leaf_text=None, start="problem"):
        """a `problem` text whose derivation goes through target_node (a node of some rule's expression);
        mode: 'take' (choose / include it), 'twice' (a repetition with two items), 'leaf' (target is an Ident to an
        expression rule: put leaf_text there)"""
        rule, _ = self.nodes[id(target_node)]
        chain = self.rule_chain(rule, start)
        if chain is None:
            return None

        def gen_rule(i, inherited=False):
            # i indexes the chain; the rule generated is chain[i][0], or the target's rule after the chain
            if i < len(chain):
                r, link = chain[i]
                on_path = self.path_ids(link)
                goal = ("link", link, i)
            else:
                r = rule
                on_path = self.path_ids(target_node)
                goal = ("target", target_node)
            atomic = self.atomicity(r, inherited)
            return gen(self.G.expr(r), on_path, goal, atomic)

        def gen(e, on_path, goal, atomic):
            if id(e) not in on_path:
                return self.min_expr(e, (), atomic)
            k = e["k"]
            if goal[0] == "link" and e is goal[1]:
                return gen_rule(goal[2] + 1, atomic)
            if goal[0] == "target" and e is goal[1]:
                if mode == "leaf":
                    return leaf_text
                if mode == "twice":
                    t = self.min_expr(e["e"], (), atomic)
                    return None if t is None else self.join(t, t, atomic)
                if k in ("Opt", "Rep", "RepOnce", "NodeTag"):
                    return self.min_expr(e["e"], (), atomic)
                return self.min_expr(e, (), atomic)
            if k == "Seq":
                a = gen(e["a"], on_path, goal, atomic)
                b = gen(e["b"], on_path, goal, atomic)
                return None if a is None or b is None else self.join(a, b, atomic)
            if k == "Choice":
                return gen(e["a"], on_path, goal, atomic) if id(e["a"]) in on_path else gen(e["b"], on_path, goal, atomic)
            if k in ("Opt", "Rep", "RepOnce", "NodeTag", "RepMin", "RepExact", "RepMinMax", "RepMax"):
                t = gen(e["e"], on_path, goal, atomic)
                if t is None:
                    return None
                reps = e.get("n", e.get("min", 1)) if k in ("RepMin", "RepExact", "RepMinMax") else 1
                out = t
                extra = self.min_expr(e["e"], (), atomic)
                for _ in range(max(reps, 1) - 1):
                    out = self.join(out, extra or "", atomic)
                return out
            return self.min_expr(e, (), atomic)
        return gen_rule(0)

    def variation_points(self):
        """(rule, node, mode, label) for every choice alternative, optional part and repetition"""
        out = []
        for name in self.G.order:
            if name in ("WHITESPACE", "COMMENT"):
                continue
            counter = {}

            def walk(e):
                k = e["k"]
                if k == "Choice":
                    for side in ("a", "b"):
                        alt = e[side]
                        if alt["k"] != "Choice":
                            counter["alt"] = counter.get("alt", 0) + 1
                            out.append((name, alt, "take", "%s/alt%d" % (name, counter["alt"])))
                if k == "Opt":
                    counter["opt"] = counter.get("opt", 0) + 1
                    out.append((name, e, "take", "%s/opt%d" % (name, counter["opt"])))
                if k in ("Rep", "RepOnce"):
                    counter["rep"] = counter.get("rep", 0) + 1
                    out.append((name, e, "take", "%s/rep%d-one" % (name, counter["rep"])))
                    out.append((name, e, "twice", "%s/rep%d-two" % (name, counter["rep"])))
                for key in ("a", "b", "e"):
                    if isinstance(e.get(key), dict):
                        walk(e[key])
            walk(self.G.expr(name))
        return out

    def expression_slots(self, exp_rules=("tagged_exp",)):
        """every Ident node that refers to an expression rule, with a label"""
        out = []
        for name in self.G.order:
            c = 0
            for n in self._idents(self.G.expr(name)):
                if n["v"] in exp_rules:
                    c += 1
                    tag = None
                    p = self.parents.get(id(n))
                    while p is not None and tag is None:
                        if p["k"] == "NodeTag":
                            tag = p["tag"]
                        p = self.parents.get(id(p))
                    out.append((name, n, "%s#%s" % (name, tag or c)))
        return out
