//! factgen: a rustc_private driver that dumps the *resolved program* of selected crates as JSON
//! facts: items (enums/structs/impls/traits), typed HIR bodies (resolved callees, variant paths,
//! re-sugared for/while/?), MIR CFG (calls with resolved callees, asserts, switches), and function
//! references.  Generic: everything Specy/rooc specific lives in /verif/rules.
//!
//! Used as RUSTC_WRAPPER: argv[1] is the real rustc; for crates not named in FACTGEN_CRATES the
//! driver just behaves like rustc.
#![feature(rustc_private)]
#![allow(clippy::all)]

extern crate rustc_abi;
extern crate rustc_ast;
extern crate rustc_data_structures;
extern crate rustc_driver;
extern crate rustc_hir;
extern crate rustc_index;
extern crate rustc_interface;
extern crate rustc_middle;
extern crate rustc_session;
extern crate rustc_span;

mod hirdump;
mod json;
mod mirdump;

use json::J;
use rustc_driver::Compilation;
use rustc_hir::def::DefKind;
use rustc_middle::ty::{self, TyCtxt};
use std::cell::RefCell;
use std::collections::HashMap;

pub struct Interner {
    map: RefCell<HashMap<String, usize>>,
    list: RefCell<Vec<String>>,
}
impl Interner {
    pub fn new() -> Self {
        Interner { map: RefCell::new(HashMap::new()), list: RefCell::new(Vec::new()) }
    }
    pub fn get(&self, s: String) -> i64 {
        let mut m = self.map.borrow_mut();
        if let Some(i) = m.get(&s) {
            return *i as i64;
        }
        let mut l = self.list.borrow_mut();
        let i = l.len();
        l.push(s.clone());
        m.insert(s, i);
        i as i64
    }
    pub fn into_json(self) -> J {
        J::Arr(self.list.into_inner().into_iter().map(J::Str).collect())
    }
}

pub fn ty_str<'tcx>(ty: ty::Ty<'tcx>) -> String {
    ty::print::with_no_trimmed_paths!(ty.to_string())
}

pub fn def_path(tcx: TyCtxt<'_>, did: rustc_hir::def_id::DefId) -> String {
    ty::print::with_no_trimmed_paths!(tcx.def_path_str(did))
}

pub fn span_line(tcx: TyCtxt<'_>, sp: rustc_span::Span) -> i64 {
    let sp = sp.source_callsite();
    if sp.is_dummy() {
        return 0;
    }
    tcx.sess.source_map().lookup_char_pos(sp.lo()).line as i64
}

pub fn span_file(tcx: TyCtxt<'_>, sp: rustc_span::Span) -> String {
    let sp = sp.source_callsite();
    if sp.is_dummy() {
        return String::new();
    }
    let f = tcx.sess.source_map().lookup_char_pos(sp.lo()).file;
    format!("{}", f.name.prefer_local_unconditionally())
}

/// name of the outermost macro (relative to the root context) a span comes from
pub fn outer_macro(sp: rustc_span::Span) -> Option<(String, String)> {
    if !sp.from_expansion() {
        return None;
    }
    let mut s = sp;
    let mut last = None;
    let mut guard = 0;
    while s.from_expansion() && guard < 64 {
        let data = s.ctxt().outer_expn_data();
        last = Some(data.kind.clone());
        s = data.call_site;
        guard += 1;
    }
    match last {
        Some(rustc_span::hygiene::ExpnKind::Macro(k, name)) => {
            Some((format!("{:?}", k), name.to_string()))
        }
        Some(rustc_span::hygiene::ExpnKind::Desugaring(d)) => {
            Some(("Desugar".to_string(), format!("{:?}", d)))
        }
        Some(rustc_span::hygiene::ExpnKind::AstPass(p)) => {
            Some(("AstPass".to_string(), format!("{:?}", p)))
        }
        _ => None,
    }
}

struct Facts {
    features: Vec<String>,
}

impl rustc_driver::Callbacks for Facts {
    fn after_analysis<'tcx>(
        &mut self,
        _compiler: &rustc_interface::interface::Compiler,
        tcx: TyCtxt<'tcx>,
    ) -> Compilation {
        let out_dir = std::env::var("FACTGEN_OUT").expect("FACTGEN_OUT");
        let tag = std::env::var("FACTGEN_TAG").unwrap_or_default();
        let crate_name = tcx.crate_name(rustc_hir::def_id::LOCAL_CRATE).to_string();
        let types = Interner::new();
        let t0 = std::time::Instant::now();

        let items = dump_items(tcx);
        let (fns, n_owners, n_hir) = hirdump::dump_bodies(tcx, &types);
        let (mir, n_mir) = mirdump::dump_mir(tcx, &types);

        let mut feats: Vec<String> = self.features.clone();
        feats.sort();
        let root = J::Obj(vec![
            ("crate", J::s(crate_name.clone())),
            ("tag", J::s(tag.clone())),
            ("features", J::Arr(feats.into_iter().map(J::Str).collect())),
            ("n_body_owners", J::Num(n_owners as i64)),
            ("n_hir_bodies", J::Num(n_hir as i64)),
            ("n_mir_bodies", J::Num(n_mir as i64)),
            ("items", items),
            ("fns", fns),
            ("mir", mir),
            ("types", types.into_json()),
        ]);
        let mut s = String::with_capacity(64 << 20);
        root.write(&mut s);
        let suffix = std::env::var("FACTGEN_SUFFIX").unwrap_or_default();
        let path = format!("{}/{}{}.facts.json", out_dir, crate_name, suffix);
        let tmp = format!("{}.tmp{}", path, std::process::id());
        std::fs::write(&tmp, s.as_bytes()).expect("write facts");
        std::fs::rename(&tmp, &path).expect("rename facts");
        eprintln!(
            "factgen: crate={} owners={} hir={} mir={} bytes={} in {:?} -> {}",
            crate_name,
            n_owners,
            n_hir,
            n_mir,
            s.len(),
            t0.elapsed(),
            path
        );
        Compilation::Continue
    }
}

fn dump_items(tcx: TyCtxt<'_>) -> J {
    let mut enums = Vec::new();
    let mut structs = Vec::new();
    let mut impls = Vec::new();
    let mut traits = Vec::new();
    for ldid in tcx.hir_crate_items(()).definitions() {
        let did = ldid.to_def_id();
        let sp = tcx.def_span(did);
        match tcx.def_kind(did) {
            DefKind::Enum | DefKind::Struct => {
                let adt = tcx.adt_def(did);
                let mut vs = Vec::new();
                for v in adt.variants().iter() {
                    let fields: Vec<J> = v
                        .fields
                        .iter()
                        .map(|f| {
                            J::Obj(vec![
                                ("name", J::s(f.name.to_string())),
                                (
                                    "ty",
                                    J::s(ty_str(
                                        tcx.type_of(f.did).instantiate_identity().skip_norm_wip(),
                                    )),
                                ),
                            ])
                        })
                        .collect();
                    vs.push(J::Obj(vec![
                        ("name", J::s(v.name.to_string())),
                        ("ctor", J::s(format!("{:?}", v.ctor_kind()))),
                        ("fields", J::Arr(fields)),
                    ]));
                }
                let o = J::Obj(vec![
                    ("path", J::s(def_path(tcx, did))),
                    ("file", J::s(span_file(tcx, sp))),
                    ("line", J::Num(span_line(tcx, sp))),
                    ("variants", J::Arr(vs)),
                ]);
                if adt.is_enum() {
                    enums.push(o)
                } else {
                    structs.push(o)
                }
            }
            DefKind::Impl { of_trait } => {
                let self_ty = ty_str(tcx.type_of(did).instantiate_identity().skip_norm_wip());
                let tr = if of_trait {
                    let r = tcx.impl_trait_ref(did).instantiate_identity().skip_norm_wip();
                    Some((def_path(tcx, r.def_id), ty::print::with_no_trimmed_paths!(r.to_string())))
                } else {
                    None
                };
                let methods: Vec<J> = tcx
                    .associated_items(did)
                    .in_definition_order()
                    .filter(|a| matches!(a.kind, ty::AssocKind::Fn { .. }))
                    .map(|a| {
                        J::Obj(vec![
                            ("name", J::s(a.name().to_string())),
                            ("path", J::s(def_path(tcx, a.def_id))),
                            (
                                "trait_item",
                                J::opt(a.trait_item_def_id().map(|d| J::s(def_path(tcx, d)))),
                            ),
                        ])
                    })
                    .collect();
                impls.push(J::Obj(vec![
                    ("self_ty", J::s(self_ty)),
                    ("trait", J::opt(tr.as_ref().map(|t| J::s(t.0.clone())))),
                    ("trait_ref", J::opt(tr.as_ref().map(|t| J::s(t.1.clone())))),
                    ("file", J::s(span_file(tcx, sp))),
                    ("line", J::Num(span_line(tcx, sp))),
                    ("derived", J::Bool(is_derived(tcx, did))),
                    ("methods", J::Arr(methods)),
                ]));
            }
            DefKind::Trait => {
                let methods: Vec<J> = tcx
                    .associated_items(did)
                    .in_definition_order()
                    .filter(|a| matches!(a.kind, ty::AssocKind::Fn { .. }))
                    .map(|a| {
                        J::Obj(vec![
                            ("name", J::s(a.name().to_string())),
                            ("path", J::s(def_path(tcx, a.def_id))),
                            ("has_default", J::Bool(a.defaultness(tcx).has_value())),
                        ])
                    })
                    .collect();
                traits.push(J::Obj(vec![
                    ("path", J::s(def_path(tcx, did))),
                    ("methods", J::Arr(methods)),
                ]));
            }
            _ => {}
        }
    }
    J::Obj(vec![
        ("enums", J::Arr(enums)),
        ("structs", J::Arr(structs)),
        ("impls", J::Arr(impls)),
        ("traits", J::Arr(traits)),
    ])
}

/// true if the definition (or its enclosing impl) was produced by a derive macro
pub fn is_derived(tcx: TyCtxt<'_>, did: rustc_hir::def_id::DefId) -> bool {
    let mut cur = Some(did);
    let mut n = 0;
    while let Some(d) = cur {
        if n > 8 {
            break;
        }
        n += 1;
        let sp = tcx.def_span(d);
        let mut s = sp;
        let mut g = 0;
        while s.from_expansion() && g < 32 {
            let data = s.ctxt().outer_expn_data();
            if let rustc_span::hygiene::ExpnKind::Macro(rustc_span::hygiene::MacroKind::Derive, _) =
                data.kind
            {
                return true;
            }
            s = data.call_site;
            g += 1;
        }
        cur = tcx.opt_parent(d);
        if let Some(p) = cur {
            if matches!(tcx.def_kind(p), DefKind::Mod) {
                break;
            }
        }
    }
    false
}

struct Plain;
impl rustc_driver::Callbacks for Plain {}

fn main() {
    let mut args: Vec<String> = std::env::args().collect();
    // RUSTC_WRAPPER / RUSTC_WORKSPACE_WRAPPER mode: argv[1] is the path of the real rustc.
    if args.len() > 1 && (args[1].ends_with("rustc") || args[1].ends_with("/rustc")) {
        args.remove(1);
    }
    let crate_name = args
        .iter()
        .position(|a| a == "--crate-name")
        .and_then(|i| args.get(i + 1))
        .cloned()
        .unwrap_or_default();
    let wanted = std::env::var("FACTGEN_CRATES").unwrap_or_else(|_| "rooc".to_string());
    let is_target = wanted.split(',').any(|w| w == crate_name)
        && std::env::var("FACTGEN_OUT").is_ok()
        // build scripts are compiled with crate name build_script_build; never a target
        && !args.iter().any(|a| a == "--print");
    if is_target {
        let mut features = Vec::new();
        for (i, a) in args.iter().enumerate() {
            if a == "--cfg" {
                if let Some(v) = args.get(i + 1) {
                    if let Some(f) = v.strip_prefix("feature=\"") {
                        features.push(f.trim_end_matches('"').to_string());
                    }
                }
            }
        }
        rustc_driver::run_compiler(&args, &mut Facts { features });
    } else {
        rustc_driver::run_compiler(&args, &mut Plain);
    }
}
