//! MIR bodies -> JSON CFG facts.
use crate::json::J;
use crate::{def_path, is_derived, outer_macro, span_file, span_line, ty_str, Interner};
use rustc_hir::def::DefKind;
use rustc_hir::def_id::DefId;
use rustc_middle::mir::{
    self, AggregateKind, AssertKind, Body, Const, Operand, Place, ProjectionElem, Rvalue,
    StatementKind, TerminatorKind,
};
use rustc_middle::ty::{self, TyCtxt};

pub fn dump_mir<'tcx>(tcx: TyCtxt<'tcx>, types: &Interner) -> (J, usize) {
    let mut out = Vec::new();
    let mut n = 0;
    for ldid in tcx.hir_body_owners() {
        let did = ldid.to_def_id();
        let kind = tcx.def_kind(did);
        if !matches!(kind, DefKind::Fn | DefKind::AssocFn | DefKind::Closure) {
            continue;
        }
        if is_derived(tcx, did) {
            continue;
        }
        if !tcx.is_mir_available(did) {
            continue;
        }
        let body: &Body<'tcx> = tcx.optimized_mir(did);
        out.push(dump_body(tcx, types, did, body));
        n += 1;
    }
    (J::Arr(out), n)
}

struct M<'a, 'tcx> {
    tcx: TyCtxt<'tcx>,
    types: &'a Interner,
    body: &'a Body<'tcx>,
    did: DefId,
}

fn dump_body<'tcx>(tcx: TyCtxt<'tcx>, types: &Interner, did: DefId, body: &Body<'tcx>) -> J {
    let m = M { tcx, types, body, did };
    let mut locals = Vec::new();
    for (l, decl) in body.local_decls.iter_enumerated() {
        locals.push(J::Obj(vec![
            ("i", J::Num(l.as_usize() as i64)),
            ("t", J::Num(types.get(ty_str(decl.ty)))),
        ]));
    }
    let mut names = Vec::new();
    for vdi in body.var_debug_info.iter() {
        if let mir::VarDebugInfoContents::Place(p) = &vdi.value {
            names.push(J::Obj(vec![
                ("name", J::s(vdi.name.to_string())),
                ("place", m.place(p)),
            ]));
        }
    }
    let mut blocks = Vec::new();
    for (bb, data) in body.basic_blocks.iter_enumerated() {
        let mut stmts = Vec::new();
        for st in data.statements.iter() {
            match &st.kind {
                StatementKind::Assign(b) => {
                    let (place, rv) = &**b;
                    let mut o = vec![
                        ("l", J::Num(span_line(tcx, st.source_info.span))),
                        ("dst", m.place(place)),
                        ("rv", m.rvalue(rv)),
                    ];
                    if st.source_info.span.from_expansion() {
                        if let Some((_, n)) = outer_macro(st.source_info.span) {
                            o.push(("m", J::s(n)));
                        }
                    }
                    stmts.push(J::Obj(o));
                }
                StatementKind::SetDiscriminant { place, variant_index } => {
                    stmts.push(J::Obj(vec![
                        ("l", J::Num(span_line(tcx, st.source_info.span))),
                        ("dst", m.place(place)),
                        ("rv", J::Obj(vec![("k", J::s("SetDiscr")), ("v", J::Num(variant_index.as_usize() as i64))])),
                    ]));
                }
                _ => {}
            }
        }
        let term = data.terminator();
        let mut t = m.terminator(term);
        // name the variants a SwitchInt on an enum discriminant distinguishes
        if let TerminatorKind::SwitchInt { discr, targets } = &term.kind {
            if let Some(dp) = discr.place() {
                for st in data.statements.iter().rev() {
                    if let StatementKind::Assign(b) = &st.kind {
                        let (place, rv) = &**b;
                        if *place == dp {
                            if let Rvalue::Discriminant(ep) = rv {
                                let ety = ep.ty(&body.local_decls, tcx).ty;
                                if let ty::Adt(adt, _) = ety.kind() {
                                    if adt.is_enum() {
                                        let mut names = Vec::new();
                                        for (v, _) in targets.iter() {
                                            let mut nm = String::from("?");
                                            for (vi, d) in adt.discriminants(tcx) {
                                                if d.val == v {
                                                    nm = adt.variant(vi).name.to_string();
                                                }
                                            }
                                            names.push(J::s(nm));
                                        }
                                        t.push(("variants", J::Arr(names)));
                                        t.push(("enum", J::s(def_path(tcx, adt.did()))));
                                        t.push(("of", m.place(ep)));
                                    }
                                }
                            }
                            break;
                        }
                    }
                }
            }
        }
        t.push(("l", J::Num(span_line(tcx, term.source_info.span))));
        if term.source_info.span.from_expansion() {
            if let Some((_, n)) = outer_macro(term.source_info.span) {
                t.push(("m", J::s(n)));
            }
        }
        blocks.push(J::Obj(vec![
            ("i", J::Num(bb.as_usize() as i64)),
            ("cleanup", J::Bool(data.is_cleanup)),
            ("stmts", J::Arr(stmts)),
            ("term", J::Obj(t)),
        ]));
    }
    J::Obj(vec![
        ("path", J::s(def_path(tcx, did))),
        ("dk", J::s(format!("{:?}", tcx.def_kind(did)))),
        ("file", J::s(span_file(tcx, body.span))),
        ("line", J::Num(span_line(tcx, body.span))),
        ("argc", J::Num(body.arg_count as i64)),
        ("locals", J::Arr(locals)),
        ("names", J::Arr(names)),
        ("blocks", J::Arr(blocks)),
    ])
}

impl<'a, 'tcx> M<'a, 'tcx> {
    fn place(&self, p: &Place<'tcx>) -> J {
        let mut s = format!("_{}", p.local.as_usize());
        for el in p.projection.iter() {
            match el {
                ProjectionElem::Deref => s.push_str(".*"),
                ProjectionElem::Field(f, _) => s.push_str(&format!(".{}", f.as_usize())),
                ProjectionElem::Index(l) => s.push_str(&format!("[_{}]", l.as_usize())),
                ProjectionElem::ConstantIndex { offset, from_end, .. } => {
                    s.push_str(&format!("[{}{}]", if from_end { "-" } else { "" }, offset))
                }
                ProjectionElem::Subslice { from, to, from_end } => {
                    s.push_str(&format!("[{}..{}{}]", from, if from_end { "-" } else { "" }, to))
                }
                ProjectionElem::Downcast(name, idx) => match name {
                    Some(n) => s.push_str(&format!("@{}", n)),
                    None => s.push_str(&format!("@#{}", idx.as_usize())),
                },
                ProjectionElem::OpaqueCast(_) | ProjectionElem::UnwrapUnsafeBinder(_) => {}
            }
        }
        J::Str(s)
    }

    fn fn_of_ty(&self, t: ty::Ty<'tcx>) -> Option<Vec<(&'static str, J)>> {
        match t.kind() {
            ty::FnDef(def_id, args) => {
                let mut o = vec![("fn", J::s(def_path(self.tcx, *def_id)))];
                let env = ty::TypingEnv::post_analysis(self.tcx, self.did);
                let args2 = self.tcx.erase_and_anonymize_regions(*args);
                let mut generic = J::Null;
                match ty::Instance::try_resolve(self.tcx, env, *def_id, args2) {
                    Ok(Some(inst)) => {
                        let r = inst.def_id();
                        if r != *def_id {
                            o.push(("resolved", J::s(def_path(self.tcx, r))));
                        }
                        if let ty::InstanceKind::Virtual(..) = inst.def {
                            o.push(("virtual", J::Bool(true)));
                        }
                    }
                    Ok(None) => {
                        generic = J::Bool(true);
                    }
                    Err(_) => {}
                }
                o.push(("unresolved", generic));
                // self type of the call (first generic arg) helps dyn expansion
                if let Some(a0) = args.iter().next() {
                    if let Some(t0) = a0.as_type() {
                        o.push(("self_ty", J::Num(self.types.get(ty_str(t0)))));
                    }
                }
                Some(o)
            }
            ty::Closure(def_id, _) => Some(vec![("closure", J::s(def_path(self.tcx, *def_id)))]),
            _ => None,
        }
    }

    fn operand(&self, op: &Operand<'tcx>) -> J {
        match op {
            Operand::Copy(p) => J::Obj(vec![("k", J::s("copy")), ("p", self.place(p))]),
            Operand::Move(p) => J::Obj(vec![("k", J::s("move")), ("p", self.place(p))]),
            Operand::Constant(c) => {
                let t = c.const_.ty();
                let mut o = vec![("k", J::s("const")), ("t", J::Num(self.types.get(ty_str(t))))];
                if let Some(f) = self.fn_of_ty(t) {
                    o.extend(f);
                } else {
                    let v = self.const_val(&c.const_);
                    o.push(("v", J::opt(v.map(J::Str))));
                }
                J::Obj(o)
            }
            _ => J::Obj(vec![("k", J::s("other"))]),
        }
    }

    fn const_val(&self, c: &Const<'tcx>) -> Option<String> {
        let t = c.ty();
        let env = ty::TypingEnv::post_analysis(self.tcx, self.did);
        match t.kind() {
            ty::Bool | ty::Int(_) | ty::Uint(_) | ty::Char => {
                let s = c.try_eval_scalar_int(self.tcx, env)?;
                match t.kind() {
                    ty::Bool => Some((s.to_bits_unchecked() != 0).to_string()),
                    ty::Int(_) => {
                        let size = s.size();
                        Some(s.to_int(size).to_string())
                    }
                    _ => Some(s.to_bits_unchecked().to_string()),
                }
            }
            ty::Float(fty) => {
                let s = c.try_eval_scalar_int(self.tcx, env)?;
                match fty {
                    ty::FloatTy::F64 => Some(format!("{:?}", f64::from_bits(s.to_bits_unchecked() as u64))),
                    ty::FloatTy::F32 => Some(format!("{:?}", f32::from_bits(s.to_bits_unchecked() as u32))),
                    _ => None,
                }
            }
            _ => None,
        }
    }

    fn rvalue(&self, rv: &Rvalue<'tcx>) -> J {
        match rv {
            Rvalue::Use(op, ..) => J::Obj(vec![("k", J::s("Use")), ("a", self.operand(op))]),
            Rvalue::Repeat(op, _) => J::Obj(vec![("k", J::s("Repeat")), ("a", self.operand(op))]),
            Rvalue::Ref(_, bk, p) => J::Obj(vec![
                ("k", J::s("Ref")),
                ("mut", J::Bool(matches!(bk, mir::BorrowKind::Mut { .. }))),
                ("p", self.place(p)),
            ]),
            Rvalue::RawPtr(_, p) => J::Obj(vec![("k", J::s("RawPtr")), ("p", self.place(p))]),
            Rvalue::Cast(kind, op, t) => J::Obj(vec![
                ("k", J::s("Cast")),
                ("ck", J::s(format!("{:?}", kind))),
                ("a", self.operand(op)),
                ("from", J::Num(self.types.get(ty_str(op.ty(&self.body.local_decls, self.tcx))))),
                ("to", J::Num(self.types.get(ty_str(*t)))),
            ]),
            Rvalue::BinaryOp(op, ab) => J::Obj(vec![
                ("k", J::s("BinaryOp")),
                ("op", J::s(format!("{:?}", op))),
                ("a", self.operand(&ab.0)),
                ("b", self.operand(&ab.1)),
                ("t", J::Num(self.types.get(ty_str(ab.0.ty(&self.body.local_decls, self.tcx))))),
            ]),
            Rvalue::UnaryOp(op, a) => J::Obj(vec![
                ("k", J::s("UnaryOp")),
                ("op", J::s(format!("{:?}", op))),
                ("a", self.operand(a)),
            ]),
            Rvalue::Discriminant(p) => J::Obj(vec![("k", J::s("Discriminant")), ("p", self.place(p))]),
            Rvalue::Aggregate(kind, ops) => {
                let mut o = vec![("k", J::s("Aggregate"))];
                match &**kind {
                    AggregateKind::Array(_) => o.push(("ak", J::s("Array"))),
                    AggregateKind::Tuple => o.push(("ak", J::s("Tuple"))),
                    AggregateKind::Adt(did, vidx, _, _, _) => {
                        o.push(("ak", J::s("Adt")));
                        let adt = self.tcx.adt_def(*did);
                        o.push(("adt", J::s(def_path(self.tcx, *did))));
                        o.push(("variant", J::s(adt.variant(*vidx).name.to_string())));
                    }
                    AggregateKind::Closure(did, _) => {
                        o.push(("ak", J::s("Closure")));
                        o.push(("closure", J::s(def_path(self.tcx, *did))));
                    }
                    _ => o.push(("ak", J::s("Other"))),
                }
                o.push(("ops", J::Arr(ops.iter().map(|x| self.operand(x)).collect())));
                J::Obj(o)
            }
            Rvalue::CopyForDeref(p) => J::Obj(vec![("k", J::s("CopyForDeref")), ("p", self.place(p))]),
            Rvalue::ThreadLocalRef(_) => J::Obj(vec![("k", J::s("ThreadLocalRef"))]),
            Rvalue::WrapUnsafeBinder(op, _) => J::Obj(vec![("k", J::s("Use")), ("a", self.operand(op))]),
        }
    }

    fn terminator(&self, term: &mir::Terminator<'tcx>) -> Vec<(&'static str, J)> {
        match &term.kind {
            TerminatorKind::Goto { target } => {
                vec![("k", J::s("Goto")), ("target", J::Num(target.as_usize() as i64))]
            }
            TerminatorKind::SwitchInt { discr, targets } => {
                let mut vals = Vec::new();
                for (v, t) in targets.iter() {
                    vals.push(J::Arr(vec![J::s(v.to_string()), J::Num(t.as_usize() as i64)]));
                }
                vec![
                    ("k", J::s("SwitchInt")),
                    ("discr", self.operand(discr)),
                    ("vals", J::Arr(vals)),
                    ("otherwise", J::Num(targets.otherwise().as_usize() as i64)),
                ]
            }
            TerminatorKind::Return => vec![("k", J::s("Return"))],
            TerminatorKind::Unreachable => vec![("k", J::s("Unreachable"))],
            TerminatorKind::UnwindResume => vec![("k", J::s("UnwindResume"))],
            TerminatorKind::UnwindTerminate(_) => vec![("k", J::s("UnwindTerminate"))],
            TerminatorKind::Drop { place, target, .. } => vec![
                ("k", J::s("Drop")),
                ("p", self.place(place)),
                ("target", J::Num(target.as_usize() as i64)),
            ],
            TerminatorKind::Call { func, args, destination, target, .. } => {
                let mut o = vec![("k", J::s("Call"))];
                let fty = func.ty(&self.body.local_decls, self.tcx);
                if let Some(f) = self.fn_of_ty(fty) {
                    o.extend(f);
                } else {
                    o.push(("fnptr", self.operand(func)));
                    o.push(("fty", J::Num(self.types.get(ty_str(fty)))));
                }
                o.push(("args", J::Arr(args.iter().map(|a| self.operand(&a.node)).collect())));
                o.push(("dst", self.place(destination)));
                o.push(("target", J::opt(target.map(|t| J::Num(t.as_usize() as i64)))));
                o
            }
            TerminatorKind::TailCall { func, args, .. } => {
                let mut o = vec![("k", J::s("Call")), ("tail", J::Bool(true))];
                let fty = func.ty(&self.body.local_decls, self.tcx);
                if let Some(f) = self.fn_of_ty(fty) {
                    o.extend(f);
                }
                o.push(("args", J::Arr(args.iter().map(|a| self.operand(&a.node)).collect())));
                o
            }
            TerminatorKind::Assert { cond, expected, msg, target, .. } => {
                let (kind, detail) = match &**msg {
                    AssertKind::BoundsCheck { len, index } => (
                        "BoundsCheck",
                        J::Arr(vec![self.operand(len), self.operand(index)]),
                    ),
                    AssertKind::Overflow(op, a, b) => (
                        "Overflow",
                        J::Arr(vec![J::s(format!("{:?}", op)), self.operand(a), self.operand(b)]),
                    ),
                    AssertKind::OverflowNeg(a) => ("OverflowNeg", J::Arr(vec![self.operand(a)])),
                    AssertKind::DivisionByZero(a) => ("DivisionByZero", J::Arr(vec![self.operand(a)])),
                    AssertKind::RemainderByZero(a) => ("RemainderByZero", J::Arr(vec![self.operand(a)])),
                    AssertKind::MisalignedPointerDereference { .. } => ("Misaligned", J::Null),
                    AssertKind::NullPointerDereference => ("NullPtr", J::Null),
                    AssertKind::InvalidEnumConstruction(_) => ("InvalidEnum", J::Null),
                    _ => ("Other", J::Null),
                };
                vec![
                    ("k", J::s("Assert")),
                    ("ak", J::s(kind)),
                    ("detail", detail),
                    ("cond", self.operand(cond)),
                    ("expected", J::Bool(*expected)),
                    ("target", J::Num(target.as_usize() as i64)),
                ]
            }
            TerminatorKind::FalseEdge { real_target, .. } => {
                vec![("k", J::s("Goto")), ("target", J::Num(real_target.as_usize() as i64))]
            }
            TerminatorKind::FalseUnwind { real_target, .. } => {
                vec![("k", J::s("Goto")), ("target", J::Num(real_target.as_usize() as i64))]
            }
            TerminatorKind::Yield { .. } => vec![("k", J::s("Yield"))],
            TerminatorKind::CoroutineDrop => vec![("k", J::s("CoroutineDrop"))],
            TerminatorKind::InlineAsm { .. } => vec![("k", J::s("InlineAsm"))],
        }
    }
}
