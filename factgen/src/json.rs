//! Minimal JSON value + writer (no dependencies).
use std::fmt::Write;

#[derive(Clone, Debug)]
pub enum J {
    Null,
    Bool(bool),
    Num(i64),
    Str(String),
    Arr(Vec<J>),
    Obj(Vec<(&'static str, J)>),
}

impl J {
    pub fn s<S: Into<String>>(s: S) -> J {
        J::Str(s.into())
    }
    pub fn obj(kind: &'static str) -> Vec<(&'static str, J)> {
        vec![("k", J::Str(kind.to_string()))]
    }
    pub fn opt(o: Option<J>) -> J {
        o.unwrap_or(J::Null)
    }
    pub fn write(&self, out: &mut String) {
        match self {
            J::Null => out.push_str("null"),
            J::Bool(b) => out.push_str(if *b { "true" } else { "false" }),
            J::Num(n) => {
                let _ = write!(out, "{}", n);
            }
            J::Str(s) => write_str(s, out),
            J::Arr(v) => {
                out.push('[');
                for (i, x) in v.iter().enumerate() {
                    if i > 0 {
                        out.push(',');
                    }
                    x.write(out);
                }
                out.push(']');
            }
            J::Obj(v) => {
                out.push('{');
                let mut first = true;
                for (k, x) in v.iter() {
                    if matches!(x, J::Null) && *k != "e" {
                        continue;
                    }
                    if !first {
                        out.push(',');
                    }
                    first = false;
                    write_str(k, out);
                    out.push(':');
                    x.write(out);
                }
                out.push('}');
            }
        }
    }
}

fn write_str(s: &str, out: &mut String) {
    out.push('"');
    for c in s.chars() {
        match c {
            '"' => out.push_str("\\\""),
            '\\' => out.push_str("\\\\"),
            '\n' => out.push_str("\\n"),
            '\r' => out.push_str("\\r"),
            '\t' => out.push_str("\\t"),
            c if (c as u32) < 0x20 => {
                let _ = write!(out, "\\u{:04x}", c as u32);
            }
            c => out.push(c),
        }
    }
    out.push('"');
}
