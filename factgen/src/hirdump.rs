//! Typed HIR bodies -> JSON trees.
use crate::json::J;
use crate::{def_path, is_derived, outer_macro, span_file, span_line, ty_str, Interner};
use rustc_hir as hir;
use rustc_hir::def::{CtorOf, DefKind, Res};
use rustc_hir::def_id::{DefId, LocalDefId};
use rustc_hir::intravisit::{self, Visitor};
use rustc_middle::ty::{self, TyCtxt, TypeVisitableExt, TypeckResults};
use rustc_span::hygiene::{ExpnKind, MacroKind};
use rustc_span::hygiene::ExpnId;
use rustc_span::Span;

const FMT_MACROS: &[&str] = &[
    "format", "write", "writeln", "print", "println", "eprint", "eprintln", "panic", "unreachable",
    "todo", "unimplemented", "format_args", "assert", "assert_eq", "assert_ne", "debug_assert",
    "debug_assert_eq", "debug_assert_ne",
];

pub fn dump_bodies<'tcx>(tcx: TyCtxt<'tcx>, types: &Interner) -> (J, usize, usize) {
    let mut out = Vec::new();
    let mut n_owners = 0;
    let mut n_hir = 0;
    for ldid in tcx.hir_body_owners() {
        n_owners += 1;
        let did = ldid.to_def_id();
        let kind = tcx.def_kind(did);
        if matches!(kind, DefKind::Closure | DefKind::InlineConst | DefKind::AnonConst) {
            // closures are inlined into their parent's tree; consts inside types are irrelevant
            continue;
        }
        let sp = tcx.def_span(did);
        let derived = is_derived(tcx, did);
        let mut o = vec![
            ("path", J::s(def_path(tcx, did))),
            ("dk", J::s(format!("{:?}", kind))),
            ("file", J::s(span_file(tcx, sp))),
            ("line", J::Num(span_line(tcx, sp))),
            ("derived", J::Bool(derived)),
        ];
        if let Some((mk, mname)) = outer_macro(sp) {
            o.push(("macro", J::s(format!("{}:{}", mk, mname))));
        }
        if matches!(kind, DefKind::Fn | DefKind::AssocFn) {
            o.push(("vis", J::s(format!("{:?}", tcx.visibility(did)))));
            let sig = tcx.fn_sig(did).instantiate_identity().skip_norm_wip().skip_binder();
            o.push((
                "inputs",
                J::Arr(sig.inputs().iter().map(|t| J::Num(types.get(ty_str(*t)))).collect()),
            ));
            o.push(("output", J::Num(types.get(ty_str(sig.output())))));
        }
        if let Some(parent) = tcx.opt_parent(did) {
            if let DefKind::Impl { of_trait } = tcx.def_kind(parent) {
                o.push((
                    "impl_self",
                    J::s(ty_str(tcx.type_of(parent).instantiate_identity().skip_norm_wip())),
                ));
                if of_trait {
                    let r = tcx.impl_trait_ref(parent).instantiate_identity().skip_norm_wip();
                    o.push(("impl_trait", J::s(def_path(tcx, r.def_id))));
                }
            } else if let DefKind::Trait = tcx.def_kind(parent) {
                o.push(("in_trait", J::s(def_path(tcx, parent))));
            }
        }
        if !derived {
            let body = tcx.hir_body_owned_by(ldid);
            let typeck = tcx.typeck(ldid);
            let cx = Cx { tcx, typeck, types, owner: ldid };
            let params: Vec<J> = body.params.iter().map(|p| cx.pat(p.pat)).collect();
            o.push(("params", J::Arr(params)));
            o.push(("body", cx.expr(body.value, &[])));
            let end = tcx.sess.source_map().lookup_char_pos(tcx.hir_span(body.value.hir_id).source_callsite().hi()).line;
            o.push(("end_line", J::Num(end as i64)));
            n_hir += 1;
        }
        out.push(J::Obj(o));
    }
    (J::Arr(out), n_owners, n_hir)
}

struct Cx<'a, 'tcx> {
    tcx: TyCtxt<'tcx>,
    typeck: &'tcx TypeckResults<'tcx>,
    types: &'a Interner,
    #[allow(dead_code)]
    owner: LocalDefId,
}

fn chain(sp: Span) -> Vec<ExpnId> {
    let mut v = Vec::new();
    let mut s = sp;
    while s.from_expansion() && v.len() < 64 {
        let id = s.ctxt().outer_expn();
        v.push(id);
        s = id.expn_data().call_site;
    }
    v
}

struct ArgCollector<'h> {
    x: ExpnId,
    found: Vec<&'h hir::Expr<'h>>,
}
impl<'h> Visitor<'h> for ArgCollector<'h> {
    fn visit_expr(&mut self, e: &'h hir::Expr<'h>) {
        if !chain(e.span).contains(&self.x) {
            self.found.push(e);
            return;
        }
        intravisit::walk_expr(self, e);
    }
}

impl<'a, 'tcx> Cx<'a, 'tcx> {
    fn res_json(&self, res: Res, o: &mut Vec<(&'static str, J)>) {
        match res {
            Res::Local(hid) => {
                o.push(("res", J::s("local")));
                o.push(("name", J::s(self.tcx.hir_name(hid).to_string())));
                o.push(("id", J::Num(hid.local_id.as_u32() as i64)));
            }
            Res::Def(dk, did) => {
                let (p, d) = self.def_json(dk, did);
                o.push(("res", J::s("def")));
                o.push(("dk", J::s(d)));
                o.push(("path", J::s(p)));
            }
            Res::SelfCtor(impl_did) | Res::SelfTyAlias { alias_to: impl_did, .. } => {
                o.push(("res", J::s("self")));
                o.push((
                    "path",
                    J::s(ty_str(self.tcx.type_of(impl_did).instantiate_identity().skip_norm_wip())),
                ));
            }
            other => {
                o.push(("res", J::s(format!("{:?}", other))));
            }
        }
    }

    /// path string of a resolved definition; a variant constructor is reported as the variant
    fn def_json(&self, dk: DefKind, did: DefId) -> (String, String) {
        match dk {
            DefKind::Ctor(CtorOf::Variant, _) => {
                let v = self.tcx.parent(did);
                (def_path(self.tcx, v), "Variant".to_string())
            }
            DefKind::Ctor(CtorOf::Struct, _) => {
                let v = self.tcx.parent(did);
                (def_path(self.tcx, v), "StructCtor".to_string())
            }
            DefKind::Variant => (def_path(self.tcx, did), "Variant".to_string()),
            _ => (def_path(self.tcx, did), format!("{:?}", dk)),
        }
    }

    fn qpath(&self, qp: &hir::QPath<'tcx>, hid: hir::HirId, o: &mut Vec<(&'static str, J)>) {
        let res = self.typeck.qpath_res(qp, hid);
        self.res_json(res, o);
    }

    /// try to resolve a (trait) method/function def + generic args to the concrete impl item
    fn resolve(&self, did: DefId, args: ty::GenericArgsRef<'tcx>) -> Option<String> {
        if !matches!(self.tcx.def_kind(did), DefKind::Fn | DefKind::AssocFn) {
            return None;
        }
        let env = ty::TypingEnv::post_analysis(self.tcx, self.owner.to_def_id());
        let args = self.tcx.erase_and_anonymize_regions(args);
        if args.has_infer() {
            return None;
        }
        match ty::Instance::try_resolve(self.tcx, env, did, args) {
            Ok(Some(inst)) => {
                let r = inst.def_id();
                if r != did {
                    Some(def_path(self.tcx, r))
                } else {
                    None
                }
            }
            _ => None,
        }
    }

    fn base(&self, kind: &'static str, e: &'tcx hir::Expr<'tcx>) -> Vec<(&'static str, J)> {
        let mut o = J::obj(kind);
        o.push(("l", J::Num(span_line(self.tcx, e.span))));
        if let Some(t) = self.typeck.expr_ty_opt(e) {
            o.push(("t", J::Num(self.types.get(ty_str(t)))));
        }
        if e.span.from_expansion() {
            if let Some((mk, name)) = outer_macro(e.span) {
                if mk != "Desugar" {
                    o.push(("m", J::s(name)));
                }
            }
        }
        o
    }

    fn exprs(&self, es: &'tcx [hir::Expr<'tcx>], pc: &[ExpnId]) -> J {
        J::Arr(es.iter().map(|e| self.expr(e, pc)).collect())
    }

    /// `cur` is the syntax context of the enclosing user-written code
    pub fn expr(&self, e: &'tcx hir::Expr<'tcx>, pc: &[ExpnId]) -> J {
        // top of a format-family macro expansion -> one opaque node holding the call-site text
        // and the user-written argument expressions
        let my = chain(e.span);
        let mut top: Option<(ExpnId, String, Span)> = None;
        for id in my.iter() {
            if pc.contains(id) {
                continue;
            }
            let data = id.expn_data();
            if let ExpnKind::Macro(MacroKind::Bang, name) = data.kind {
                let n = name.as_str();
                let n = n.rsplit("::").next().unwrap_or(n);
                if FMT_MACROS.contains(&n) {
                    top = Some((*id, n.to_string(), data.call_site));
                }
            }
        }
        if let Some((x, n, call_site)) = top {
            let mut o = self.base("Macro", e);
            o.push(("name", J::s(n)));
            let snip = self.tcx.sess.source_map().span_to_snippet(call_site).unwrap_or_default();
            o.push(("snippet", J::s(snip)));
            let mut c = ArgCollector { x, found: Vec::new() };
            intravisit::walk_expr(&mut c, e);
            let args: Vec<J> = c.found.iter().map(|a| self.expr(a, pc)).collect();
            o.push(("args", J::Arr(args)));
            return J::Obj(o);
        }
        let cur: &[ExpnId] = &my;
        use hir::ExprKind as K;
        match e.kind {
            K::DropTemps(inner) => {
                // for-loop re-sugaring
                if let K::Match(iterexpr, [arm], hir::MatchSource::ForLoopDesugar) = inner.kind {
                    if let K::Call(_, [arg]) = iterexpr.kind {
                        if let K::Loop(block, ..) = arm.body.kind {
                            if let [stmt] = block.stmts {
                                if let hir::StmtKind::Expr(me) = stmt.kind {
                                    if let K::Match(_, [_, some_arm], _) = me.kind {
                                        if let hir::PatKind::Struct(_, [field], _) = some_arm.pat.kind {
                                            let mut o = self.base("For", e);
                                            o.push(("lid", J::Num(arm.body.hir_id.local_id.as_u32() as i64)));
                                            let user = pc;
                                            o.push(("pat", self.pat(field.pat)));
                                            o.push(("iter", self.expr(arg, user)));
                                            o.push(("body", self.expr(some_arm.body, user)));
                                            return J::Obj(o);
                                        }
                                        if let hir::PatKind::TupleStruct(_, [p], _) = some_arm.pat.kind {
                                            let mut o = self.base("For", e);
                                            o.push(("lid", J::Num(arm.body.hir_id.local_id.as_u32() as i64)));
                                            let user = pc;
                                            o.push(("pat", self.pat(p)));
                                            o.push(("iter", self.expr(arg, user)));
                                            o.push(("body", self.expr(some_arm.body, user)));
                                            return J::Obj(o);
                                        }
                                    }
                                }
                            }
                        }
                    }
                }
                self.expr(inner, cur)
            }
            K::Use(inner, _) => self.expr(inner, cur),
            K::Type(inner, _) => self.expr(inner, cur),
            K::ConstBlock(ref cb) => {
                let mut o = self.base("ConstBlock", e);
                let b = self.tcx.hir_body(cb.body);
                o.push(("e", self.expr(b.value, cur)));
                J::Obj(o)
            }
            K::Array(es) => {
                let mut o = self.base("Array", e);
                o.push(("es", self.exprs(es, cur)));
                J::Obj(o)
            }
            K::Tup(es) => {
                let mut o = self.base("Tup", e);
                o.push(("es", self.exprs(es, cur)));
                J::Obj(o)
            }
            K::Call(f, args) => {
                let mut o = self.base("Call", e);
                if let K::Path(ref qp) = f.kind {
                    let res = self.typeck.qpath_res(qp, f.hir_id);
                    match res {
                        Res::Def(dk, did) => {
                            let (p, d) = self.def_json(dk, did);
                            o.push(("callee", J::s(p)));
                            o.push(("dk", J::s(d)));
                            if let Some(r) = self.resolve(did, self.typeck.node_args(f.hir_id)) {
                                o.push(("resolved", J::s(r)));
                            }
                        }
                        Res::SelfCtor(impl_did) => {
                            o.push((
                                "callee",
                                J::s(ty_str(
                                    self.tcx.type_of(impl_did).instantiate_identity().skip_norm_wip(),
                                )),
                            ));
                            o.push(("dk", J::s("StructCtor")));
                        }
                        _ => {
                            o.push(("f", self.expr(f, cur)));
                        }
                    }
                } else {
                    o.push(("f", self.expr(f, cur)));
                }
                o.push(("args", self.exprs(args, cur)));
                J::Obj(o)
            }
            K::MethodCall(seg, recv, args, _) => {
                let mut o = self.base("MCall", e);
                o.push(("name", J::s(seg.ident.name.to_string())));
                if let Some(did) = self.typeck.type_dependent_def_id(e.hir_id) {
                    o.push(("callee", J::s(def_path(self.tcx, did))));
                    if let Some(r) = self.resolve(did, self.typeck.node_args(e.hir_id)) {
                        o.push(("resolved", J::s(r)));
                    }
                }
                o.push(("recv", self.expr(recv, cur)));
                o.push(("args", self.exprs(args, cur)));
                J::Obj(o)
            }
            K::Binary(op, a, b) => {
                let mut o = self.base("Binary", e);
                o.push(("op", J::s(op.node.as_str())));
                if let Some(did) = self.typeck.type_dependent_def_id(e.hir_id) {
                    o.push(("callee", J::s(def_path(self.tcx, did))));
                    if let Some(r) = self.resolve(did, self.typeck.node_args(e.hir_id)) {
                        o.push(("resolved", J::s(r)));
                    }
                }
                o.push(("a", self.expr(a, cur)));
                o.push(("b", self.expr(b, cur)));
                J::Obj(o)
            }
            K::Unary(op, a) => {
                let mut o = self.base("Unary", e);
                o.push(("op", J::s(op.as_str())));
                if let Some(did) = self.typeck.type_dependent_def_id(e.hir_id) {
                    o.push(("callee", J::s(def_path(self.tcx, did))));
                    if let Some(r) = self.resolve(did, self.typeck.node_args(e.hir_id)) {
                        o.push(("resolved", J::s(r)));
                    }
                }
                o.push(("a", self.expr(a, cur)));
                J::Obj(o)
            }
            K::Lit(lit) => {
                let mut o = self.base("Lit", e);
                self.lit(&lit.node, &mut o);
                J::Obj(o)
            }
            K::Cast(a, _) => {
                let mut o = self.base("Cast", e);
                if let Some(t) = self.typeck.expr_ty_opt(a) {
                    o.push(("from", J::Num(self.types.get(ty_str(t)))));
                }
                o.push(("a", self.expr(a, cur)));
                J::Obj(o)
            }
            K::Let(l) => {
                let mut o = self.base("LetExpr", e);
                o.push(("pat", self.pat(l.pat)));
                o.push(("init", self.expr(l.init, cur)));
                J::Obj(o)
            }
            K::If(c, t, els) => {
                let mut o = self.base("If", e);
                o.push(("cond", self.expr(c, cur)));
                o.push(("then", self.expr(t, cur)));
                o.push(("else", J::opt(els.map(|x| self.expr(x, cur)))));
                J::Obj(o)
            }
            K::Loop(block, _, src, _) => {
                if let hir::LoopSource::While = src {
                    if let Some(inner) = block.expr {
                        if let K::If(c, t, Some(_)) = inner.kind {
                            let mut o = self.base("While", e);
                            o.push(("lid", J::Num(e.hir_id.local_id.as_u32() as i64)));
                            let user = pc;
                            o.push(("cond", self.expr(c, user)));
                            o.push(("body", self.expr(t, user)));
                            return J::Obj(o);
                        }
                    }
                }
                let mut o = self.base("Loop", e);
                o.push(("lid", J::Num(e.hir_id.local_id.as_u32() as i64)));
                o.push(("src", J::s(format!("{:?}", src))));
                o.push(("body", self.block(block, cur)));
                J::Obj(o)
            }
            K::Match(scrut, arms, src) => {
                if let hir::MatchSource::TryDesugar(_) = src {
                    if let K::Call(_, [inner]) = scrut.kind {
                        let mut o = self.base("Try", e);
                        o.push(("e", self.expr(inner, pc)));
                        return J::Obj(o);
                    }
                }
                let mut o = self.base("Match", e);
                if !matches!(src, hir::MatchSource::Normal) {
                    o.push(("src", J::s(format!("{:?}", src))));
                }
                o.push(("scrut", self.expr(scrut, cur)));
                let arms: Vec<J> = arms
                    .iter()
                    .map(|a| {
                        J::Obj(vec![
                            ("l", J::Num(span_line(self.tcx, a.span))),
                            ("pat", self.pat(a.pat)),
                            ("guard", J::opt(a.guard.map(|g| self.expr(g, cur)))),
                            ("body", self.expr(a.body, cur)),
                        ])
                    })
                    .collect();
                o.push(("arms", J::Arr(arms)));
                J::Obj(o)
            }
            K::Closure(c) => {
                let mut o = self.base("Closure", e);
                let b = self.tcx.hir_body(c.body);
                o.push(("def", J::s(def_path(self.tcx, c.def_id.to_def_id()))));
                o.push(("params", J::Arr(b.params.iter().map(|p| self.pat(p.pat)).collect())));
                o.push(("body", self.expr(b.value, cur)));
                J::Obj(o)
            }
            K::Block(b, _) => self.block_expr(b, e, cur),
            K::Assign(l, r, _) => {
                let mut o = self.base("Assign", e);
                o.push(("lhs", self.expr(l, cur)));
                o.push(("rhs", self.expr(r, cur)));
                J::Obj(o)
            }
            K::AssignOp(op, l, r) => {
                let mut o = self.base("AssignOp", e);
                o.push(("op", J::s(op.node.as_str())));
                if let Some(did) = self.typeck.type_dependent_def_id(e.hir_id) {
                    o.push(("callee", J::s(def_path(self.tcx, did))));
                }
                o.push(("lhs", self.expr(l, cur)));
                o.push(("rhs", self.expr(r, cur)));
                J::Obj(o)
            }
            K::Field(a, ident) => {
                let mut o = self.base("Field", e);
                o.push(("name", J::s(ident.name.to_string())));
                o.push(("a", self.expr(a, cur)));
                J::Obj(o)
            }
            K::Index(a, i, _) => {
                let mut o = self.base("Index", e);
                if let Some(did) = self.typeck.type_dependent_def_id(e.hir_id) {
                    o.push(("callee", J::s(def_path(self.tcx, did))));
                }
                o.push(("a", self.expr(a, cur)));
                o.push(("i", self.expr(i, cur)));
                J::Obj(o)
            }
            K::Path(ref qp) => {
                let mut o = self.base("Path", e);
                self.qpath(qp, e.hir_id, &mut o);
                J::Obj(o)
            }
            K::AddrOf(_, m, a) => {
                let mut o = self.base("Ref", e);
                o.push(("mut", J::Bool(m.is_mut())));
                o.push(("a", self.expr(a, cur)));
                J::Obj(o)
            }
            K::Break(dest, v) => {
                let mut o = self.base("Break", e);
                if let Ok(t) = dest.target_id {
                    o.push(("target", J::Num(t.local_id.as_u32() as i64)));
                }
                o.push(("e", J::opt(v.map(|x| self.expr(x, cur)))));
                J::Obj(o)
            }
            K::Continue(dest) => {
                let mut o = self.base("Continue", e);
                if let Ok(t) = dest.target_id {
                    o.push(("target", J::Num(t.local_id.as_u32() as i64)));
                }
                J::Obj(o)
            }
            K::Ret(v) => {
                let mut o = self.base("Ret", e);
                o.push(("e", J::opt(v.map(|x| self.expr(x, cur)))));
                J::Obj(o)
            }
            K::Struct(qp, fields, tail) => {
                let mut o = self.base("Struct", e);
                self.qpath(qp, e.hir_id, &mut o);
                let fs: Vec<J> = fields
                    .iter()
                    .map(|f| {
                        J::Obj(vec![
                            ("name", J::s(f.ident.name.to_string())),
                            ("e", self.expr(f.expr, cur)),
                        ])
                    })
                    .collect();
                o.push(("fields", J::Arr(fs)));
                if let hir::StructTailExpr::Base(b) = tail {
                    o.push(("base", self.expr(b, cur)));
                }
                J::Obj(o)
            }
            K::Repeat(a, _) => {
                let mut o = self.base("Repeat", e);
                o.push(("a", self.expr(a, cur)));
                J::Obj(o)
            }
            K::Become(a) => {
                let mut o = self.base("Become", e);
                o.push(("a", self.expr(a, cur)));
                J::Obj(o)
            }
            K::Yield(a, _) => {
                let mut o = self.base("Yield", e);
                o.push(("a", self.expr(a, cur)));
                J::Obj(o)
            }
            K::InlineAsm(_) => J::Obj(self.base("InlineAsm", e)),
            K::OffsetOf(..) => J::Obj(self.base("OffsetOf", e)),
            K::UnsafeBinderCast(_, a, _) => self.expr(a, cur),
            K::Err(_) => J::Obj(self.base("Err", e)),
        }
    }

    fn lit(&self, lit: &rustc_ast::LitKind, o: &mut Vec<(&'static str, J)>) {
        use rustc_ast::LitKind as L;
        match lit {
            L::Str(s, _) => {
                o.push(("lk", J::s("str")));
                o.push(("v", J::s(s.to_string())));
            }
            L::Int(n, _) => {
                o.push(("lk", J::s("int")));
                o.push(("v", J::s(n.get().to_string())));
            }
            L::Float(s, _) => {
                o.push(("lk", J::s("float")));
                o.push(("v", J::s(s.to_string())));
            }
            L::Bool(b) => {
                o.push(("lk", J::s("bool")));
                o.push(("v", J::s(b.to_string())));
            }
            L::Char(c) => {
                o.push(("lk", J::s("char")));
                o.push(("v", J::s(c.to_string())));
            }
            L::Byte(b) => {
                o.push(("lk", J::s("byte")));
                o.push(("v", J::s(b.to_string())));
            }
            _ => {
                o.push(("lk", J::s("other")));
            }
        }
    }

    fn block_expr(&self, b: &'tcx hir::Block<'tcx>, e: &'tcx hir::Expr<'tcx>, pc: &[ExpnId]) -> J {
        let mut o = self.base("Block", e);
        self.block_into(b, pc, &mut o);
        J::Obj(o)
    }

    fn block(&self, b: &'tcx hir::Block<'tcx>, pc: &[ExpnId]) -> J {
        let mut o = J::obj("Block");
        o.push(("l", J::Num(span_line(self.tcx, b.span))));
        self.block_into(b, pc, &mut o);
        J::Obj(o)
    }

    fn block_into(&self, b: &'tcx hir::Block<'tcx>, pc: &[ExpnId], o: &mut Vec<(&'static str, J)>) {
        let mut stmts = Vec::new();
        for s in b.stmts {
            match s.kind {
                hir::StmtKind::Let(l) => {
                    let mut so = J::obj("Let");
                    so.push(("l", J::Num(span_line(self.tcx, l.span))));
                    so.push(("pat", self.pat(l.pat)));
                    so.push(("init", J::opt(l.init.map(|x| self.expr(x, pc)))));
                    so.push(("els", J::opt(l.els.map(|x| self.block(x, pc)))));
                    stmts.push(J::Obj(so));
                }
                hir::StmtKind::Expr(x) => {
                    stmts.push(J::Obj(vec![("k", J::s("Expr")), ("e", self.expr(x, pc))]));
                }
                hir::StmtKind::Semi(x) => {
                    stmts.push(J::Obj(vec![("k", J::s("Semi")), ("e", self.expr(x, pc))]));
                }
                hir::StmtKind::Item(_) => {}
            }
        }
        o.push(("stmts", J::Arr(stmts)));
        o.push(("e", J::opt(b.expr.map(|x| self.expr(x, pc)))));
    }

    pub fn pat(&self, p: &'tcx hir::Pat<'tcx>) -> J {
        use hir::PatKind as P;
        let mut o;
        match p.kind {
            P::Missing | P::Wild => {
                o = J::obj("PWild");
            }
            P::Never => {
                o = J::obj("PNever");
            }
            P::Binding(mode, hid, ident, sub) => {
                o = J::obj("PBind");
                o.push(("name", J::s(ident.name.to_string())));
                o.push(("id", J::Num(hid.local_id.as_u32() as i64)));
                let byref = !matches!(mode.0, hir::ByRef::No);
                o.push(("byref", J::Bool(byref)));
                o.push(("mut", J::Bool(mode.1.is_mut())));
                o.push(("sub", J::opt(sub.map(|s| self.pat(s)))));
            }
            P::Struct(ref qp, fields, rest) => {
                o = J::obj("PStruct");
                self.qpath(qp, p.hir_id, &mut o);
                let fs: Vec<J> = fields
                    .iter()
                    .map(|f| {
                        J::Obj(vec![
                            ("name", J::s(f.ident.name.to_string())),
                            ("pat", self.pat(f.pat)),
                        ])
                    })
                    .collect();
                o.push(("fields", J::Arr(fs)));
                o.push(("rest", J::Bool(rest.is_some())));
            }
            P::TupleStruct(ref qp, pats, dd) => {
                o = J::obj("PTupleStruct");
                self.qpath(qp, p.hir_id, &mut o);
                o.push(("pats", J::Arr(pats.iter().map(|x| self.pat(x)).collect())));
                if let Some(i) = dd.as_opt_usize() {
                    o.push(("dd", J::Num(i as i64)));
                }
            }
            P::Or(pats) => {
                o = J::obj("POr");
                o.push(("pats", J::Arr(pats.iter().map(|x| self.pat(x)).collect())));
            }
            P::Tuple(pats, dd) => {
                o = J::obj("PTuple");
                o.push(("pats", J::Arr(pats.iter().map(|x| self.pat(x)).collect())));
                if let Some(i) = dd.as_opt_usize() {
                    o.push(("dd", J::Num(i as i64)));
                }
            }
            P::Box(x) | P::Deref(x) => {
                o = J::obj("PDeref");
                o.push(("pat", self.pat(x)));
            }
            P::Ref(x, _, _) => {
                o = J::obj("PRef");
                o.push(("pat", self.pat(x)));
            }
            P::Expr(pe) => {
                o = self.pat_expr(pe);
            }
            P::Guard(x, _) => {
                o = J::obj("PGuard");
                o.push(("pat", self.pat(x)));
            }
            P::Range(lo, hi, end) => {
                o = J::obj("PRange");
                o.push(("lo", J::opt(lo.map(|x| J::Obj(self.pat_expr(x))))));
                o.push(("hi", J::opt(hi.map(|x| J::Obj(self.pat_expr(x))))));
                o.push(("end", J::s(format!("{:?}", end))));
            }
            P::Slice(a, m, b) => {
                o = J::obj("PSlice");
                o.push(("before", J::Arr(a.iter().map(|x| self.pat(x)).collect())));
                o.push(("mid", J::opt(m.map(|x| self.pat(x)))));
                o.push(("after", J::Arr(b.iter().map(|x| self.pat(x)).collect())));
            }
            P::Err(_) => {
                o = J::obj("PErr");
            }
        }
        if let Some(t) = self.typeck.node_type_opt(p.hir_id) {
            o.push(("t", J::Num(self.types.get(ty_str(t)))));
        }
        J::Obj(o)
    }

    fn pat_expr(&self, pe: &'tcx hir::PatExpr<'tcx>) -> Vec<(&'static str, J)> {
        match pe.kind {
            hir::PatExprKind::Lit { lit, negated } => {
                let mut o = J::obj("PLit");
                self.lit(&lit.node, &mut o);
                o.push(("neg", J::Bool(negated)));
                o
            }
            hir::PatExprKind::Path(ref qp) => {
                let mut o = J::obj("PPath");
                self.qpath(qp, pe.hir_id, &mut o);
                o
            }
        }
    }
}

#[allow(dead_code)]
fn _unused(_: Span) {}
